#!/bin/bash
# usage: confirm_mutant.sh <name>...   (expects /tmp/seeded/<name>/{patch.diff,demo.sh,meta.json})
# Confirms in a scratch worktree: patch applies, builds, 38 tests pass, demo fails with / passes without.
# One shared build directory (/tmp/confirm_target) so that dependencies are compiled once; names are
# processed one after the other. Result: last line of /tmp/seeded/<name>/confirm.log.
export CARGO_NET_OFFLINE=true
export CARGO_TARGET_DIR=/tmp/confirm_target
wt=/tmp/wt/confirm
cd /repo && { [ -d "$wt" ] || git worktree add -q --detach "$wt" HEAD; } || exit 2
for name in "$@"; do
  src=/tmp/seeded/$name; log=$src/confirm.log
  (
    set -x
    cd "$wt" || exit 2
    git checkout -q --detach "$(git -C /repo rev-parse HEAD)"; git checkout -q -- .; git clean -fdq src tests
    cargo build --offline -q 2>/dev/null || { echo "RESULT base-build-failed"; exit 1; }
    cp $CARGO_TARGET_DIR/debug/zinoma $src/zinoma.base
    git apply "$src/patch.diff" || { echo "RESULT patch-does-not-apply"; exit 1; }
    cargo build --offline -q 2>/dev/null || { echo "RESULT mutant-build-failed"; exit 1; }
    cp $CARGO_TARGET_DIR/debug/zinoma $src/zinoma.mut
    t=$(cargo test --offline 2>&1 | grep -E "^test result" | awk '{p+=$4; f+=$6} END {print p" passed "f" failed"}')
    echo "TESTS $t"
    timeout -s KILL 300 bash "$src/demo.sh" $src/zinoma.base; b=$?
    timeout -s KILL 300 bash "$src/demo.sh" $src/zinoma.mut; m=$?
    rm -f $src/zinoma.base $src/zinoma.mut
    git checkout -q -- .
    echo "RESULT tests=[$t] demo_base=$b demo_mutant=$m"
  ) > "$log" 2>&1
  echo "$name: $(tail -1 "$log")"
done
