#!/bin/bash
# usage: confirm_mutant.sh <name>   (expects /tmp/seeded/<name>/{patch.diff,demo.sh,meta.json})
# Confirms in a scratch worktree: patch applies, builds, 38 tests pass, demo fails with / passes without.
name="$1"; src=/tmp/seeded/$name; wt=/tmp/wt/confirm_$name
log=/tmp/seeded/$name/confirm.log
exec > "$log" 2>&1
set -x
cd /repo && git worktree add -q --detach "$wt" HEAD || exit 2
trap 'cd /; git -C /repo worktree remove --force "$wt"' EXIT
cd "$wt" || exit 2
export CARGO_NET_OFFLINE=true
# unchanged binary
cargo build --offline -q 2>/dev/null || { echo "RESULT base-build-failed"; exit 1; }
cp target/debug/zinoma /tmp/seeded/$name/zinoma.base
git apply "$src/patch.diff" || { echo "RESULT patch-does-not-apply"; exit 1; }
cargo build --offline -q 2>/dev/null || { echo "RESULT mutant-build-failed"; exit 1; }
cp target/debug/zinoma /tmp/seeded/$name/zinoma.mut
t=$(cargo test --offline 2>&1 | grep -E "^test result" | awk '{p+=$4; f+=$6} END {print p" passed "f" failed"}')
echo "TESTS $t"
bash "$src/demo.sh" /tmp/seeded/$name/zinoma.base; b=$?
bash "$src/demo.sh" /tmp/seeded/$name/zinoma.mut; m=$?
rm -f /tmp/seeded/$name/zinoma.base /tmp/seeded/$name/zinoma.mut
echo "RESULT tests=[$t] demo_base=$b demo_mutant=$m"
