//! stub-conformance: for scripted file operations, the (kind class, path list) sets predicted by
//! `simrt::vfs::apply_plain` (what the virtual inotify delivers to zinoma's callback) are compared
//! with what the real `notify` crate reports on this kernel. Exit 0 = conforming, 1 = mismatch,
//! 0 with a note when inotify is not available.

use notify::event::{AccessKind, AccessMode, ModifyKind, RenameMode};
use notify::{EventKind, RecursiveMode, Watcher};
use simrt::plan::FsOp;
use simrt::vfs;
use std::collections::BTreeSet;
use std::path::PathBuf;
use std::sync::mpsc;
use std::time::Duration;

fn class_real(k: &EventKind) -> Option<&'static str> {
    Some(match k {
        EventKind::Create(_) => "create",
        EventKind::Modify(ModifyKind::Data(_)) => "data",
        EventKind::Modify(ModifyKind::Metadata(_)) => "metadata",
        EventKind::Modify(ModifyKind::Name(RenameMode::From)) => "rename-from",
        EventKind::Modify(ModifyKind::Name(RenameMode::To)) => "rename-to",
        EventKind::Modify(ModifyKind::Name(RenameMode::Both)) => "rename-both",
        EventKind::Access(AccessKind::Close(AccessMode::Write)) => "close-write",
        EventKind::Remove(_) => "remove",
        EventKind::Access(_) => return None, // opens/reads are not in notify's default mask
        _ => "other",
    })
}

fn class_stub(code: u8) -> &'static str {
    match code {
        vfs::K_CREATE => "create",
        vfs::K_MODIFY_DATA => "data",
        vfs::K_CLOSE_WRITE => "close-write",
        vfs::K_METADATA => "metadata",
        vfs::K_REMOVE => "remove",
        vfs::K_RENAME_FROM => "rename-from",
        vfs::K_RENAME_TO => "rename-to",
        vfs::K_RENAME_BOTH => "rename-both",
        _ => "other",
    }
}

fn main() {
    let root = PathBuf::from(format!("/dev/shm/zsim-stubconf-{}", std::process::id()));
    let _ = std::fs::remove_dir_all(&root);
    std::fs::create_dir_all(root.join("src/sub")).unwrap();
    std::fs::create_dir_all(root.join("vars")).unwrap();
    for (p, c) in [("src/a.c", "a"), ("src/b.h", "b"), ("src/sub/c.c", "c"), ("single.txt", "s")] {
        std::fs::write(root.join(p), c).unwrap();
    }
    let (tx, rx) = mpsc::channel::<(usize, notify::Result<notify::Event>)>();
    let tx1 = tx.clone();
    let mut w1 = match notify::RecommendedWatcher::new(move |e| { let _ = tx1.send((1, e)); }, notify::Config::default()) {
        Ok(w) => w,
        Err(e) => {
            println!("stub-conformance: SKIPPED, no file watching on this kernel ({})", e);
            return;
        }
    };
    let tx2 = tx.clone();
    let mut w2 = notify::RecommendedWatcher::new(move |e| { let _ = tx2.send((2, e)); }, notify::Config::default()).unwrap();
    if let Err(e) = w1.watch(&root.join("src"), RecursiveMode::Recursive) {
        println!("stub-conformance: SKIPPED, cannot watch ({})", e);
        return;
    }
    w2.watch(&root.join("single.txt"), RecursiveMode::Recursive).unwrap();
    // a third watcher registered through a path ending in `..`: events must come back under the
    // path as given, and an event on the watched directory itself carries exactly that path
    let tx3 = tx.clone();
    let mut w3 = notify::RecommendedWatcher::new(move |e| { let _ = tx3.send((3, e)); }, notify::Config::default()).unwrap();
    w3.watch(&root.join("src/sub/.."), RecursiveMode::Recursive).unwrap();
    let mk = |declared: PathBuf, is_dir: bool| vfs::WatcherState {
        roots: vec![vfs::WatchRoot { canon: std::fs::canonicalize(&declared).unwrap(), declared, is_dir }],
        handler: None,
        dead: false,
        closed: false,
        queue: Default::default(),
    };
    let stub_watchers = vec![mk(root.join("src"), true), mk(root.join("single.txt"), false), mk(root.join("src/sub/.."), true)];
    let mut bad = 0;
    // watch() on a missing path: the error shape zinoma has to tolerate
    match w2.watch(&root.join("missing/never.txt"), RecursiveMode::Recursive) {
        Err(notify::Error { kind: notify::ErrorKind::Io(e), .. }) if e.kind() == std::io::ErrorKind::NotFound => println!("ok   watch(missing path) -> ErrorKind::Io(NotFound) as modelled by the shim"),
        other => {
            println!("DIFF watch(missing path) -> {:?}; the shim returns ErrorKind::Io(NotFound)", other.map_err(|e| e.kind));
            bad += 1;
        }
    }
    let ops: Vec<FsOp> = vec![
        FsOp::Write { path: "src/a.c".into(), content: "a2".into() },
        FsOp::Append { path: "src/b.h".into(), content: "+".into() },
        FsOp::Touch { path: "src/a.c".into() },
        FsOp::Write { path: "src/sub/c.c".into(), content: "c2".into() },
        FsOp::Create { path: "src/new.c".into(), content: "n".into() },
        FsOp::Create { path: "src/sub/x~".into(), content: "tmp".into() },
        FsOp::Create { path: "src/bad\\xff.c".into(), content: "hostile".into() },
        FsOp::Rename { from: "src/new.c".into(), to: "src/moved.c".into() },
        FsOp::Rename { from: "src/sub/c.c".into(), to: "src/c-up.c".into() },
        FsOp::Delete { path: "src/moved.c".into() },
        FsOp::Delete { path: "src/sub/x~".into() },
        FsOp::WriteOlder { path: "src/b.h".into(), content: "older".into() },
        FsOp::WriteMmap { path: "src/a.c".into(), content: "zz".into() },
        FsOp::WriteMmap { path: "single.txt".into(), content: "q".into() },
        FsOp::Write { path: "single.txt".into(), content: "s2".into() },
        FsOp::Append { path: "single.txt".into(), content: "+".into() },
        FsOp::Touch { path: "single.txt".into() },
        FsOp::Touch { path: "src".into() },
        FsOp::Touch { path: "src/sub".into() },
        FsOp::Create { path: "src/sub/late.c".into(), content: "l".into() },
    ];
    std::thread::sleep(Duration::from_millis(200));
    while rx.try_recv().is_ok() {}
    let mut clock = 10u64;
    for op in &ops {
        let predicted = vfs::apply_plain(&root, &root.join("vars"), op, &mut clock);
        std::thread::sleep(Duration::from_millis(250));
        let mut real: BTreeSet<(&'static str, Vec<PathBuf>)> = BTreeSet::new();
        while let Ok((_w, ev)) = rx.try_recv() {
            if let Ok(ev) = ev {
                if let Some(c) = class_real(&ev.kind) {
                    real.insert((c, ev.paths.clone()));
                }
            }
        }
        // what each virtual watcher would hand to the callback (paths as that watcher reports them)
        let mut stub: BTreeSet<(&'static str, Vec<PathBuf>)> = BTreeSet::new();
        for w in &stub_watchers {
            for (k, paths) in &predicted {
                let mapped: Vec<Option<PathBuf>> = paths.iter().map(|p| vfs::reported_as(w, p)).collect();
                if mapped.iter().any(|m| m.is_some()) {
                    stub.insert((class_stub(*k), mapped.into_iter().zip(paths.iter()).map(|(m, p)| m.unwrap_or_else(|| p.clone())).collect()));
                }
            }
        }
        // the driver sets logical mtimes with utimensat after each write: the real kernel adds a
        // metadata event for that, which the stub does not model (same path, harmless)
        let missing: Vec<_> = stub.difference(&real).collect();
        let extra: Vec<_> = real.difference(&stub).filter(|(c, _)| *c != "metadata").collect();
        let desc = format!("{:?}", op).chars().take(90).collect::<String>();
        if missing.is_empty() && extra.is_empty() {
            println!("ok   {}  ({} predicted event classes)", desc, stub.len());
        } else {
            bad += 1;
            println!("DIFF {}\n       predicted but not reported: {:?}\n       reported but not predicted: {:?}", desc, missing, extra);
        }
    }
    let _ = std::fs::remove_dir_all(&root);
    if bad > 0 {
        println!("stub-conformance: {} mismatches", bad);
        std::process::exit(1);
    }
    println!("stub-conformance: the virtual inotify agrees with notify 6.1.1 on this kernel for {} scripted operations", ops.len());
}
