//! Reference model, independent of zinoma's code: graph closure, effective dependencies,
//! denotation of `paths` resources, records and the skip rule.

use crate::scen::{Kind, Res, Scenario, Target};
use std::collections::{BTreeMap, BTreeSet};
use std::path::{Path, PathBuf};

pub type Tid = (usize, String);

/// Targets named on the command line (arguments not starting with `-`), resolved like the
/// documentation says: `project::target`, or a bare name of the entry project.
pub fn requested(sc: &Scenario, entry: usize, args: &[String]) -> Vec<Tid> {
    let mut v = vec![];
    for a in args {
        if a.starts_with('-') {
            continue;
        }
        if let Some((pn, tn)) = a.split_once("::") {
            if let Some(pi) = sc.projects.iter().position(|p| p.name.as_deref() == Some(pn)) {
                v.push((pi, tn.to_string()));
            }
        } else {
            v.push((entry, a.clone()));
        }
    }
    v
}

pub fn direct_deps(sc: &Scenario, t: &Tid) -> Vec<Tid> {
    match sc.target(t.0, &t.1) {
        Some(tt) => tt.deps.iter().map(|d| (d.project, d.target.clone())).collect(),
        None => vec![],
    }
}

pub fn closure(sc: &Scenario, roots: &[Tid]) -> BTreeSet<Tid> {
    let mut seen = BTreeSet::new();
    let mut stack: Vec<Tid> = roots.to_vec();
    while let Some(t) = stack.pop() {
        if seen.insert(t.clone()) {
            for d in direct_deps(sc, &t) {
                stack.push(d);
            }
        }
    }
    seen
}

/// Direct dependencies with aggregates replaced (transitively) by their dependencies.
pub fn effective_deps(sc: &Scenario, t: &Tid) -> BTreeSet<Tid> {
    let mut out = BTreeSet::new();
    let mut seen = BTreeSet::new();
    let mut stack = direct_deps(sc, t);
    while let Some(d) = stack.pop() {
        if !seen.insert(d.clone()) {
            continue;
        }
        match sc.target(d.0, &d.1).map(|x| x.kind) {
            Some(Kind::Aggregate) => stack.extend(direct_deps(sc, &d)),
            Some(_) => {
                out.insert(d);
            }
            None => {}
        }
    }
    out
}

/// Every build/service target that must be ready before `t` may start, transitively.
pub fn transitive_effective_deps(sc: &Scenario, t: &Tid) -> BTreeSet<Tid> {
    let mut out = BTreeSet::new();
    let mut stack: Vec<Tid> = effective_deps(sc, t).into_iter().collect();
    while let Some(d) = stack.pop() {
        if out.insert(d.clone()) {
            stack.extend(effective_deps(sc, &d));
        }
    }
    out
}

/// Does a real service stand behind this requested root (directly or through aggregates)?
pub fn is_service_root(sc: &Scenario, t: &Tid) -> bool {
    match sc.target(t.0, &t.1).map(|x| x.kind) {
        Some(Kind::Service) => true,
        Some(Kind::Aggregate) => direct_deps(sc, t).iter().any(|d| is_service_root(sc, d)),
        _ => false,
    }
}

pub fn kind_of(sc: &Scenario, t: &Tid) -> Option<Kind> {
    sc.target(t.0, &t.1).map(|x| x.kind)
}

// ------------------------------------------------------------------ resources

fn normalise_exts(e: &Option<Vec<String>>) -> Option<Vec<String>> {
    let v: Vec<String> = e.as_ref()?.iter().filter(|x| !x.is_empty()).map(|x| if x.starts_with('.') { x.clone() } else { format!(".{}", x) }).collect();
    if v.is_empty() {
        None
    } else {
        Some(v)
    }
}

fn walk(p: &Path, exts: &Option<Vec<String>>, top: bool, out: &mut BTreeSet<PathBuf>) {
    // the root of a walk is followed through symlinks (walkdir semantics); below it links are
    // not followed for descent, but a link to a regular file counts as that file
    let md = if top { std::fs::metadata(p) } else { std::fs::symlink_metadata(p) };
    let md = match md {
        Ok(m) => m,
        Err(_) => return,
    };
    if !top && p.file_name().map(|n| n == ".zinoma").unwrap_or(false) {
        return;
    }
    if top && p.file_name().map(|n| n == ".zinoma").unwrap_or(false) {
        return;
    }
    if md.is_dir() {
        if let Ok(rd) = std::fs::read_dir(p) {
            for e in rd.flatten() {
                walk(&e.path(), exts, false, out);
            }
        }
        return;
    }
    let is_file = md.is_file() || (md.file_type().is_symlink() && std::fs::metadata(p).map(|m| m.is_file()).unwrap_or(false));
    if !is_file {
        return;
    }
    if let Some(exts) = exts {
        let name = p.file_name().map(|n| n.to_string_lossy().into_owned()).unwrap_or_default();
        if !exts.iter().any(|e| name.ends_with(e.as_str())) {
            return;
        }
    }
    out.insert(p.to_path_buf());
}

/// The set of files a list of `paths` resources denotes, on the real tree, per the documented
/// rule (C15's statement, re-implemented).
pub fn denote(res: &[Res], project_dir: &Path) -> BTreeSet<PathBuf> {
    let mut out = BTreeSet::new();
    for r in res {
        if let Res::Paths { paths, extensions } = r {
            let exts = normalise_exts(extensions);
            for p in paths {
                walk(&project_dir.join(p), &exts, true, &mut out);
            }
        }
    }
    out
}

#[derive(Clone, Debug, PartialEq, Default)]
pub struct ResState {
    /// file → (mtime ns, content)
    pub files: BTreeMap<PathBuf, (i128, Vec<u8>)>,
    /// (project directory, variable key) → output
    pub cmds: BTreeMap<(PathBuf, String), Vec<u8>>,
    /// some command resource fails → state not computable
    pub cmd_failed: bool,
}

pub fn res_state(res_with_dirs: &[(Vec<Res>, PathBuf)], vars_dir: &Path) -> ResState {
    use std::os::unix::fs::MetadataExt;
    let mut st = ResState::default();
    for (res, dir) in res_with_dirs {
        for f in denote(res, dir) {
            if let (Ok(md), Ok(c)) = (std::fs::metadata(&f), std::fs::read(&f)) {
                st.files.insert(f, (md.mtime() as i128 * 1_000_000_000 + md.mtime_nsec() as i128, c));
            }
        }
        for r in res {
            if let Res::Cmd { key } = r {
                let root = vars_dir.parent().unwrap_or(vars_dir);
                let v = simrt::vfs::lookup_var(vars_dir, root, dir, key);
                if v.starts_with(b"!fail") {
                    st.cmd_failed = true;
                }
                st.cmds.insert((dir.clone(), key.clone()), v);
            }
        }
    }
    st
}

/// "Nothing declared changed": same file set, each file same mtime or same content, same
/// command outputs. Returns (unchanged, content_equal) where content_equal ignores mtimes.
pub fn same_state(rec: &ResState, cur: &ResState) -> (bool, bool) {
    if rec.cmd_failed || cur.cmd_failed {
        return (false, false);
    }
    if rec.files.len() != cur.files.len() || rec.cmds != cur.cmds {
        return (false, false);
    }
    let mut weak = true;
    let mut strong = true;
    for (p, (mt, c)) in &cur.files {
        match rec.files.get(p) {
            None => return (false, false),
            Some((rmt, rc)) => {
                if rc != c {
                    strong = false;
                    if rmt != mt {
                        weak = false;
                    }
                }
            }
        }
    }
    (weak, strong)
}

/// Declared input and output resources of a build/service target with the directory each
/// resolves in (own resources in its project, inherited ones in the producer's project).
pub fn declared(sc: &Scenario, case_root: &Path, t: &Tid) -> (Vec<(Vec<Res>, PathBuf)>, Vec<(Vec<Res>, PathBuf)>) {
    let tt: &Target = match sc.target(t.0, &t.1) {
        Some(x) => x,
        None => return (vec![], vec![]),
    };
    let dir = case_root.join(&sc.projects[t.0].dir);
    let mut input = vec![(tt.input.clone(), dir.clone())];
    for d in &tt.deps {
        if d.via_output {
            if let Some(prod) = sc.target(d.project, &d.target) {
                input.push((prod.output.clone(), case_root.join(&sc.projects[d.project].dir)));
            }
        }
    }
    let output = vec![(tt.output.clone(), dir)];
    (input, output)
}

pub fn has_inputs(sc: &Scenario, t: &Tid) -> bool {
    let tt = match sc.target(t.0, &t.1) {
        Some(x) => x,
        None => return false,
    };
    if !tt.input.is_empty() {
        return true;
    }
    tt.deps.iter().any(|d| d.via_output && sc.target(d.project, &d.target).map(|p| !p.output.is_empty()).unwrap_or(false))
}
