//! real-diff: stub fidelity. The same generated invocation/edit histories are run (a) under the
//! simulator with virtual scripts and (b) with the REAL zinoma binary (real async-std, real
//! /bin/sh, real processes) on a second copy of the tree whose scripts are equivalent shell
//! code. Compared per invocation: exit class, the set of targets built, the set skipped.
//! A maintainer command (`./check real-diff [n]`), not a registered check.

use crate::gen;
use crate::model;
use crate::prng::Rng;
use crate::props::history::{gen_history, HistOpts};
use crate::run::run_invocation;
use crate::scen::*;
use std::collections::BTreeSet;
use std::path::Path;
use std::process::Command;

fn sh_quote(s: &str) -> String {
    format!("'{}'", s.replace('\'', "'\\''"))
}

/// Shell equivalent of the virtual build script: output = f(id, sorted declared input contents).
fn real_script(sc: &Scenario, p: usize, t: &Target) -> String {
    let mut s = String::from("set -e\n");
    s.push_str("h=$( {\n");
    for entry in sc.read_list(p, t) {
        let (rel, exts): (&str, Vec<&str>) = match entry.split_once(':') {
            Some((r, e)) => (r, e.split('+').filter(|x| !x.is_empty()).collect()),
            None => (entry.as_str(), vec![]),
        };
        let mut find = format!("find {} -name .zinoma -prune -o \\( -type f -o -xtype f \\)", sh_quote(rel));
        if !exts.is_empty() {
            let names: Vec<String> = exts.iter().map(|e| format!("-name {}", sh_quote(&format!("*{}", e)))).collect();
            find.push_str(&format!(" \\( {} \\)", names.join(" -o ")));
        }
        find.push_str(" -print 2>/dev/null | LC_ALL=C sort | while IFS= read -r f; do printf '%s\\n' \"$f\"; cat \"$f\"; done\n");
        s.push_str(&find);
    }
    s.push_str("true; } | cksum | cut -d' ' -f1 )\n");
    if t.exit != 0 {
        s.push_str(&format!("exit {}\n", t.exit));
    }
    for w in &t.wipes {
        s.push_str(&format!("rm -f {}\n", sh_quote(w)));
    }
    for w in &t.writes {
        if let Some((d, _)) = w.rsplit_once('/') {
            s.push_str(&format!("mkdir -p {}\n", sh_quote(d)));
        }
        s.push_str(&format!("printf '%s|%s|%s\\n' {} {} \"$h\" > {}\n", sh_quote(&sc.sim_id(p, &t.name)), sh_quote(w), sh_quote(w)));
    }
    s
}

fn real_cmd(vars_dir: &Path, root: &Path, proj_dir: &str, key: &str) -> String {
    let mangled = proj_dir.replace('/', "+");
    let a = vars_dir.join(format!("{}__{}", mangled, key));
    let b = vars_dir.join(key);
    let _ = root;
    format!("if [ -e {a} ]; then v=$(cat {a}; echo x); else v=$(cat {b} 2>/dev/null; echo x); fi; v=${{v%x}}; case \"$v\" in '!fail'*) exit 1;; esac; printf '%s' \"$v\"", a = sh_quote(&a.to_string_lossy()), b = sh_quote(&b.to_string_lossy()))
}

/// zinoma.yml of project `p` with real shell scripts.
fn real_yaml(sc: &Scenario, p: usize, root: &Path) -> String {
    use serde_json::{json, Map, Value};
    // start from the simulated file and swap the scripts
    let mut v: Value = serde_json::from_str(&sc.yaml(p)).unwrap();
    let vars = root.join(".vars");
    let pdir = sc.projects[p].dir.clone();
    if let Some(targets) = v.get_mut("targets").and_then(|t| t.as_object_mut()) {
        for t in &sc.projects[p].targets {
            if let Some(m) = targets.get_mut(&t.name).and_then(|x| x.as_object_mut()) {
                if m.contains_key("build") {
                    m.insert("build".into(), json!(real_script(sc, p, t)));
                }
                for key in ["input", "output"] {
                    if let Some(arr) = m.get_mut(key).and_then(|x| x.as_array_mut()) {
                        for r in arr.iter_mut() {
                            if let Some(o) = r.as_object_mut() {
                                if let Some(c) = o.get("cmd_stdout").and_then(|c| c.as_str()).map(String::from) {
                                    if let Some(k) = c.strip_prefix("@cmd key=") {
                                        // an inherited command runs in the producer's directory;
                                        // declared here it runs in this project's directory
                                        o.insert("cmd_stdout".into(), json!(real_cmd(&vars, root, &pdir, k)));
                                    }
                                }
                            }
                        }
                    }
                }
            }
        }
    }
    let _: Map<String, Value> = Map::new();
    serde_json::to_string_pretty(&v).unwrap()
}

fn decisions_from_log(sc: &Scenario, text: &str) -> (BTreeSet<String>, BTreeSet<String>) {
    let mut built = BTreeSet::new();
    let mut skipped = BTreeSet::new();
    for (p, name) in sc.all_targets() {
        let d = sc.display(p, &name);
        if text.contains(&format!("{} - Building", d)) {
            built.insert(sc.sim_id(p, &name));
        }
        if text.contains(&format!("{} - Build skipped (Not Modified)", d)) {
            skipped.insert(sc.sim_id(p, &name));
        }
    }
    (built, skipped)
}

pub fn real_diff(n: u64, seed: u64, real_bin: &Path) -> i32 {
    let mut mismatches = 0;
    let mut compared = 0u64;
    let mut skipped_scen = 0u64;
    let base = Path::new("/dev/shm/zsim-realdiff");
    let _ = std::fs::remove_dir_all(base);
    for i in 0..n {
        let mut rng = Rng::derive(seed, "real-diff", i);
        let mut sc = gen_history(&mut rng, &HistOpts { io: gen::IoOpts::default(), max_invocations: 4, edit_pct: 80, touch_only: false, vary_entry: true, clean_pct: 10, fail_pct: 0, corrupt_pct: 0, io_fault_pct: 0, sys_fault: (0, false), ancient_every: 0 });
        // services would keep the real binary alive: only histories whose requests stay clear of them
        let has_service = sc.steps.iter().any(|s| match s {
            Step::Invoke(inv) => {
                let req = model::requested(&sc, inv.entry, &inv.args);
                model::closure(&sc, &req).iter().any(|t| model::kind_of(&sc, t) == Some(Kind::Service))
            }
            _ => false,
        });
        if has_service {
            skipped_scen += 1;
            continue;
        }
        for st in sc.steps.iter_mut() {
            if let Step::Invoke(inv) = st {
                inv.plan.strategy = simrt::plan::Strategy::Fifo;
            }
        }
        let sim_root = base.join(format!("r{}/sim", i));
        let real_root = base.join(format!("r{}/real", i));
        let mut sim_case = match materialize(&sc, &sim_root) {
            Ok(c) => c,
            Err(_) => continue,
        };
        let mut real_case = match materialize(&sc, &real_root) {
            Ok(c) => c,
            Err(_) => continue,
        };
        for p in 0..sc.projects.len() {
            let _ = std::fs::write(real_root.join(&sc.projects[p].dir).join("zinoma.yml"), real_yaml(&sc, p, &real_root));
        }
        let mut idx = 0;
        for st in &sc.steps {
            match st {
                Step::Fs(op) => {
                    let mut c1 = sim_case.clock;
                    simrt::vfs::apply_plain(&sim_root, &sim_case.vars_dir(), op, &mut c1);
                    sim_case.clock = c1;
                    let mut c2 = real_case.clock;
                    simrt::vfs::apply_plain(&real_root, &real_case.vars_dir(), op, &mut c2);
                    real_case.clock = c2;
                }
                Step::CorruptState { .. } => {}
                Step::Invoke(inv) => {
                    let r = run_invocation(&sc, &mut sim_case, inv, &format!("s{}", idx));
                    idx += 1;
                    let mut sim_text = String::new();
                    for e in r.logs() {
                        sim_text.push_str(&e.rest);
                        sim_text.push('\n');
                    }
                    let (sb, ss) = decisions_from_log(&sc, &sim_text);
                    let out = Command::new("timeout").arg("-s").arg("KILL").arg("30").arg(real_bin).arg("-p").arg(real_case.project_dir(&sc, inv.entry)).args(&inv.args).current_dir(&real_root).output();
                    let out = match out {
                        Ok(o) => o,
                        Err(e) => {
                            eprintln!("real-diff: cannot run the real binary: {}", e);
                            return 2;
                        }
                    };
                    let real_text = String::from_utf8_lossy(&out.stderr).into_owned();
                    let (rb, rs) = decisions_from_log(&sc, &real_text);
                    let real_code = out.status.code().unwrap_or(-1);
                    compared += 1;
                    if sb != rb || ss != rs || (r.code == 0) != (real_code == 0) {
                        mismatches += 1;
                        if mismatches <= 5 {
                            if std::env::var_os("REALDIFF_DUMP").is_some() {
                                println!("{}", serde_json::to_string(&sc).unwrap());
                            }
                            println!("DIFF history {} invocation {} argv={:?}\n  sim : code={} built={:?} skipped={:?}\n  real: code={} built={:?} skipped={:?}\n  real stderr tail: {}", i, idx, inv.args, r.code, sb, ss, real_code, rb, rs, real_text.lines().rev().take(3).collect::<Vec<_>>().join(" | "));
                        }
                    }
                }
            }
        }
        let _ = std::fs::remove_dir_all(base.join(format!("r{}", i)));
    }
    let _ = std::fs::remove_dir_all(base);
    println!("real-diff: {} invocations of {} histories compared between the simulator and the real binary ({} histories skipped: service in a closure), {} mismatches", compared, n - skipped_scen, skipped_scen, mismatches);
    if mismatches > 0 {
        1
    } else {
        0
    }
}
