//! C14 (determinism + no-abort half): the verdict on an arrangement of project files and the
//! meaning of every target name are the same for every hash order.

use super::sample_of;
use crate::engine::{Property, Stats, Violation};
use crate::prng::Rng;
use crate::run::run_invocation;
use crate::scen::*;
use simrt::plan::Plan;
use std::collections::BTreeMap;
use std::path::Path;

pub struct C14;

fn viol(oracle: &str, witness: String, message: String) -> Option<Violation> {
    Some(Violation { oracle: oracle.into(), witness, message })
}

impl Property for C14 {
    fn id(&self) -> &'static str {
        "C14"
    }
    fn cases(&self, tier: &str) -> u64 {
        if tier == "quick" {
            1_500
        } else {
            40_000
        }
    }
    fn rule(&self) -> &'static str {
        "one case = an arrangement of 2-4 project directories (names drawn from a small pool so that clashes are frequent, missing or syntactically invalid names, imports forming trees, diamonds, cycles and self-imports, import keys that do or do not match the imported project's name, unknown keys) + one request, executed under 8 different seeded hash orders (std RandomState keys come from the interposed getrandom) with the FIFO schedule. A few arrangements carry one document the documented schema excludes (empty target body, two kinds at once, unknown keys, target or project names outside `\\w[-\\w]*` including ones that only start validly; a third of these documents carry 64 KiB of comment lines before the offending part), which must be rejected; every 12th case builds a valid two-project tree (recorded state exists), then breaks a reference so that only resolution can notice and runs `--clean` / `--clean top` / `top`: the refusal must leave the tree byte-identical; every 400th case is one valid project with a dependency chain of 12 000 or 4 000 targets (`--clean`, which resolves every target). Oracle: no run panics or aborts; the verdict (accepted / rejected before anything runs) and the multiset of scripts started are identical for all 8 hash orders. distinct_nontrivial = distinct (arrangement hash) among cases that load at least two projects"
    }
    fn assumptions(&self) -> Vec<&'static str> {
        vec!["only the schedule-free determinism and no-abort half of C14 is decided here; totality over arbitrary byte strings and strictness of the schema are input-space claims left to fuzzing (DESIGN.md §7 C14)"]
    }
    fn generate(&self, rng: &mut Rng, case_no: u64) -> Scenario {
        if case_no % 400 == 123 {
            // a valid but very deep project: loading must not abort (stack depth of the resolver)
            let n = if (case_no / 400) % 2 == 0 { 12_000 } else { 4_000 };
            let mut y = String::from("targets:\n");
            for i in 0..n {
                y.push_str(&format!("  t{}:\n", i));
                if i > 0 {
                    y.push_str(&format!("    dependencies: [t{}]\n", i - 1));
                }
                y.push_str(&format!("    build: \"@sim id=p0.t{}\"\n", i));
            }
            let projects = vec![Project { dir: "p0".into(), name: None, imports: vec![], targets: vec![], raw_yaml: Some(y), import_paths: Default::default() }];
            let mut sc = Scenario { focus: None, label: format!("config-deep-chain-{}", n), projects, files: vec![], vars: BTreeMap::new(), steps: vec![] };
            // the verdict does not depend on the hash order here: two orders are enough; the
            // request is a shallow target so that an accepted project runs quickly
            for h in 0..2u64 {
                sc.steps.push(Step::Invoke(Invocation { entry: 0, args: vec!["--clean".into()], hash_seed: 5 + h, plan: Plan { seed: 1, ..Default::default() }, side: 0 }));
            }
            return sc;
        }
        if case_no % 12 == 5 {
            // state exists, then the configuration is broken in a way only resolution notices,
            // then `--clean` (or a build): the error must come before anything is deleted
            let root_yaml = |dep: &str| format!("imports:\n  lib: \"../pa\"\ntargets:\n  t:\n    input: [{{paths: [src.txt]}}]\n    output: [{{paths: [t.out]}}]\n    build: \"@sim id=p0.t read=src.txt write=t.out\"\n  top:\n    dependencies: [\"{}\", t]\n    input: [{{paths: [src.txt]}}]\n    build: \"@sim id=p0.top read=src.txt\"\n", dep);
            let lib_yaml = "name: lib\ntargets:\n  t:\n    input: [{paths: [src.txt]}]\n    output: [{paths: [t.out]}]\n    build: \"@sim id=pa.t read=src.txt write=t.out\"\n".to_string();
            let projects = vec![
                Project { dir: "p0".into(), name: None, imports: vec![("lib".into(), 1)], targets: vec![], raw_yaml: Some(root_yaml("lib::t")), import_paths: Default::default() },
                Project { dir: "pa".into(), name: Some("lib".into()), imports: vec![], targets: vec![], raw_yaml: Some(lib_yaml), import_paths: Default::default() },
            ];
            let files = vec![FileSpec { path: "p0/src.txt".into(), kind: FileKind::File("root source\n".into()) }, FileSpec { path: "pa/src.txt".into(), kind: FileKind::File("lib source\n".into()) }];
            let mut sc = Scenario { focus: None, label: "config-broken-after-build".into(), projects, files, vars: BTreeMap::new(), steps: vec![] };
            let mk = |args: Vec<&str>, h: u64| Step::Invoke(Invocation { entry: 0, args: args.into_iter().map(String::from).collect(), hash_seed: h, plan: Plan { seed: 1, ..Default::default() }, side: 0 });
            sc.steps.push(mk(vec!["top", "lib::t"], 3 + rng.below(100) as u64));
            let broken = match rng.below(4) {
                0 => root_yaml("lib::gone"),
                1 => root_yaml("nolib::t"),
                2 => root_yaml("top"),
                _ => root_yaml("lib::t").replace("input: [{paths: [src.txt]}]\n    build: \"@sim id=p0.top", "input: [\"lib::missing.output\"]\n    build: \"@sim id=p0.top"),
            };
            sc.steps.push(Step::Fs(simrt::plan::FsOp::Write { path: "p0/zinoma.yml".into(), content: broken }));
            let second: Vec<&str> = match rng.below(3) {
                0 => vec!["--clean"],
                1 => vec!["--clean", "top"],
                _ => vec!["top"],
            };
            for h in 0..3u64 {
                sc.steps.push(mk(second.clone(), 11 + 13 * h));
            }
            return sc;
        }
        let k = rng.range(2, 4);
        let dirs = ["p0", "pa", "pb", "pc"];
        let pool = ["dup", "lib", "util", "dup"];
        let mut names: Vec<Option<String>> = vec![];
        for i in 0..k {
            let n = if i == 0 {
                if rng.chance(50) {
                    Some(rng.pick(&["root", "dup", "lib"]).to_string())
                } else {
                    None
                }
            } else {
                match rng.weighted(&[80, 8, 6, 6]) {
                    0 => Some(rng.pick(&pool).to_string()),
                    1 => None,
                    2 => Some("-bad".to_string()),
                    // a valid first character does not make a valid name
                    _ => Some(rng.pick(&["with space", "app::core", "lib/v2", "a.b", "tail!"]).to_string()),
                }
            };
            names.push(n);
        }
        // imports
        let mut imports: Vec<Vec<(String, usize)>> = vec![vec![]; k];
        for i in 0..k {
            let n = rng.weighted(&[if i == 0 { 5 } else { 45 }, 50, 25, 5]);
            for _ in 0..n {
                let j = match rng.weighted(&[80, 10, 10]) {
                    0 => rng.below(k),
                    1 => i, // self-import
                    _ => 0, // back to the root: cycle
                };
                let key = match (&names[j], rng.weighted(&[85, 15])) {
                    (Some(nm), 0) => nm.clone(),
                    (_, _) => rng.pick(&["dup", "lib", "other"]).to_string(),
                };
                if !imports[i].iter().any(|x| x.0 == key) {
                    imports[i].push((key, j));
                }
            }
        }
        if imports[0].is_empty() {
            let j = rng.range(1, k - 1);
            imports[0].push((names[j].clone().unwrap_or_else(|| "lib".into()), j));
        }
        let mut projects = vec![];
        let mut invalid: Option<String> = None;
        for i in 0..k {
            let mut y = String::new();
            if let Some(n) = &names[i] {
                y.push_str(&format!("name: \"{}\"\n", n));
            }
            if !imports[i].is_empty() {
                y.push_str("imports:\n");
                for (key, j) in &imports[i] {
                    y.push_str(&format!("  \"{}\": \"../{}\"\n", key, dirs[*j]));
                }
            }
            if rng.chance(4) {
                y.push_str("unknown_key: 1\n");
            }
            y.push_str("targets:\n");
            y.push_str(&format!("  t:\n    build: \"@sim id={}.t\"\n", dirs[i]));
            if i <= 1 && invalid.is_none() && rng.chance(8) {
                // a document that the documented schema excludes: must be rejected, whatever the hash order
                let (what, text) = match rng.below(13) {
                    12 => ("not-utf8", "  bad:\n    build: \"@sim id=x.bad\"   # caf\\xe9 (Latin-1)\n".to_string()),
                    10 => ("cmd-resource-with-extra-key", "  bad:\n    build: \"@sim id=x.bad\"\n    input: [{cmd_stdout: \"@cmd key=ver\", paths: [src]}]\n".to_string()),
                    11 => ("cmd-output-with-unknown-key", "  bad:\n    build: \"@sim id=x.bad\"\n    output: [{cmd_stdout: \"@cmd key=ver\", colour: red}]\n".to_string()),
                    7 => ("output-ref-two-separators", "  bad:\n    build: \"@sim id=x.bad\"\n    input: [\"a::b::t.output\"]\n".to_string()),
                    8 => ("output-ref-with-space", "  bad:\n    build: \"@sim id=x.bad\"\n    input: [\"t t.output\"]\n".to_string()),
                    9 => ("output-ref-with-slash", "  bad:\n    build: \"@sim id=x.bad\"\n    input: [\"dir/t.output\"]\n".to_string()),
                    0 => ("empty-target", "  bad: {}\n".to_string()),
                    1 => ("two-kinds", "  bad:\n    build: \"@sim id=x.bad\"\n    service: \"@sim id=x.bad svc\"\n".to_string()),
                    2 => ("unknown-target-key", "  bad:\n    build: \"@sim id=x.bad\"\n    colour: red\n".to_string()),
                    3 => ("dependencies-not-a-list", "  bad:\n    dependencies: t\n".to_string()),
                    4 => ("aggregate-with-output", "  bad:\n    dependencies: [t]\n    output: [{paths: [x]}]\n".to_string()),
                    5 => ("invalid-target-name", format!("  \"{}\":\n    build: \"@sim id=x.bad\"\n", rng.pick(&["-bad", "gen docs", "pack.output", "lib/v2", "app::core", "tail!"]))),
                    _ => ("unknown-resource-key", "  bad:\n    build: \"@sim id=x.bad\"\n    input: [{paths: [x], colour: red}]\n".to_string()),
                };
                if (case_no + what.len() as u64) % 3 == 0 {
                    // a big project file: the offending part lies beyond the first 64 KiB
                    // (generated files, long licence headers)
                    for line in 0..900 {
                        y.push_str(&format!("  # generated section, line {:04} ............................................................\n", line));
                    }
                }
                y.push_str(&text);
                invalid = Some(format!("{}@{}", what, dirs[i]));
            }
            if i == 0 {
                // top depends on one target of each distinct imported name
                let mut deps: Vec<String> = vec![];
                for (key, _) in &imports[0] {
                    deps.push(format!("{}::t", key));
                }
                if rng.chance(50) {
                    deps.push("t".into());
                }
                y.push_str(&format!("  top:\n    dependencies: [{}]\n    build: \"@sim id=p0.top\"\n", deps.iter().map(|d| format!("\"{}\"", d)).collect::<Vec<_>>().join(", ")));
            }
            projects.push(Project { dir: dirs[i].to_string(), name: names[i].clone(), imports: imports[i].clone(), targets: vec![], raw_yaml: Some(y), import_paths: Default::default() });
        }
        let request = match rng.weighted(&[60, 40]) {
            0 => "top".to_string(),
            _ => {
                let named: Vec<&String> = names.iter().skip(1).flatten().filter(|n| !n.starts_with('-') && n.chars().all(|c| c.is_alphanumeric() || c == '_' || c == '-')).collect();
                if named.is_empty() {
                    "top".to_string()
                } else {
                    format!("{}::t", rng.pick(&named))
                }
            }
        };
        // an invalid document only counts if its project is certainly loaded: p0 always is, pa
        // when the root imports it first-hand
        let invalid = invalid.filter(|w| w.ends_with("@p0") || imports[0].iter().any(|x| x.1 == 1));
        // so does a project name outside `\w[-\w]*` on a project that is certainly loaded
        let name_ok = |n: &str| !n.is_empty() && !n.starts_with('-') && n.chars().all(|c| c.is_alphanumeric() || c == '_' || c == '-');
        let invalid = invalid.or_else(|| {
            (0..k.min(2)).find(|&i| (i == 0 || imports[0].iter().any(|x| x.1 == 1)) && names[i].as_deref().map(|n| !name_ok(n)).unwrap_or(false)).map(|i| format!("invalid-project-name@{}", dirs[i]))
        });
        let label = match &invalid {
            Some(w) => format!("config-{}proj-invalid:{}", k, w),
            None => format!("config-{}proj", k),
        };
        // a malformed reference is only noticed when its target is resolved: `--clean` without
        // targets resolves every target of every loaded project
        let request = if invalid.as_deref().map(|w| w.starts_with("output-ref")).unwrap_or(false) { "--clean".to_string() } else { request };
        let mut sc = Scenario { focus: None, label, projects, files: vec![], vars: BTreeMap::new(), steps: vec![] };
        for h in 0..8u64 {
            sc.steps.push(Step::Invoke(Invocation { entry: 0, args: vec![request.clone()], hash_seed: 1 + h * 7919 + rng.below(1000) as u64, plan: Plan { seed: 1, ..Default::default() }, side: 0 }));
        }
        sc
    }
    fn evaluate(&self, sc: &Scenario, root: &Path, stats: &mut Stats) -> Option<Violation> {
        let mut case = match materialize(sc, root) {
            Ok(c) => c,
            Err(e) => {
                stats.harness_errors.push(format!("materialize: {}", e));
                return None;
            }
        };
        let mut seen: Vec<(u64, String, BTreeMap<String, usize>)> = vec![];
        let mut idx = 0;
        let mut arrangement = simrt::stamp::FNV_INIT;
        for p in &sc.projects {
            arrangement = simrt::stamp::fnv(arrangement, p.raw_yaml.as_deref().unwrap_or("").as_bytes());
        }
        let broken_after_build = sc.label == "config-broken-after-build";
        for st in &sc.steps {
            if let Step::Fs(op) = st {
                let mut clock = case.clock;
                simrt::vfs::apply_plain(&case.root.clone(), &case.vars_dir(), op, &mut clock);
                case.clock = clock;
                seen.clear();
            }
            if let Step::Invoke(inv) = st {
                let before = super::history::snapshot_tree(&case.root);
                let r = run_invocation(sc, &mut case, inv, &format!("h{}", idx));
                idx += 1;
                // "reports an error before running or deleting anything"
                let nothing_started = r.procs.is_empty();
                if r.code != 0 && nothing_started && r.abnormal().is_none() {
                    let after = super::history::snapshot_tree(&case.root);
                    if after != before {
                        let gone: Vec<String> = before.keys().filter(|k| !after.contains_key(*k)).map(|k| k.display().to_string()).take(4).collect();
                        return viol(
                            "rejected-but-tree-modified",
                            format!("argv={:?} gone={:?}", inv.args, gone),
                            format!("zinoma refused the configuration (status {}: {}) but the tree changed: missing afterwards {:?}", r.code, r.stderr.lines().last().unwrap_or(""), gone),
                        );
                    }
                }
                if broken_after_build && idx >= 2 && r.code == 0 {
                    return viol("invalid-document-accepted", "what=broken-after-build".into(), format!("a configuration whose references cannot be resolved was accepted: argv {:?}", inv.args));
                }
                stats.absorb_run(inv, &r, false);
                if stats.sample.is_none() {
                    let mut s = sample_of(sc, inv, &r);
                    s["project_files"] = serde_json::json!(sc.projects.iter().map(|p| (p.dir.clone(), p.raw_yaml.clone().unwrap_or_default())).collect::<BTreeMap<_, _>>());
                    stats.sample = Some(s);
                }
                if let Some(a) = r.abnormal() {
                    return viol("abnormal-exit-while-loading", format!("how={} shape={}", a, sc.label), format!("zinoma ended abnormally ({}) on this arrangement of project files (hash seed {}): {}", a, inv.hash_seed, r.stderr.lines().rev().take(2).collect::<Vec<_>>().join(" | ")));
                }
                let class = if r.code == 0 && r.main_returned() {
                    "accepted".to_string()
                } else if r.footer.is_none() && (r.code == 1 || r.code == 2) {
                    "rejected".to_string()
                } else {
                    format!("other({}/{})", r.exit_kind(), r.code)
                };
                let mut started = BTreeMap::new();
                for p in &r.procs {
                    *started.entry(p.id.clone()).or_insert(0) += 1;
                }
                seen.push((inv.hash_seed, class, started));
            }
        }
        if sc.projects.len() >= 2 {
            stats.nontrivial.insert(arrangement);
        }
        if let Some(w) = sc.label.split("-invalid:").nth(1) {
            if let Some(s) = seen.iter().find(|s| s.1 == "accepted") {
                return viol(
                    "invalid-document-accepted",
                    format!("what={}", w.split('@').next().unwrap_or("")),
                    format!("a project file that the documented schema excludes ({}) was accepted (hash seed {}) and scripts {:?} ran", w, s.0, s.2),
                );
            }
        }
        let first = seen.first()?.clone();
        for s in &seen[1..] {
            if s.1 != first.1 {
                return viol(
                    "verdict-depends-on-hash-order",
                    format!("{} vs {}", first.1, s.1),
                    format!("the same project files are {} with hash seed {} and {} with hash seed {}", first.1, first.0, s.1, s.0),
                );
            }
            if s.2 != first.2 {
                return viol(
                    "target-meaning-depends-on-hash-order",
                    format!("request={:?}", super::first_invocation(sc).map(|i| i.args.clone()).unwrap_or_default()),
                    format!("the same request runs scripts {:?} with hash seed {} and {:?} with hash seed {}: a target name denotes different targets from one invocation to the next", first.2, first.0, s.2, s.0),
                );
            }
        }
        None
    }
}
