//! C05: fault enumeration — crash at every decision index, signal at every decision index,
//! every script outcome, every prefix of each record (torn write), bit flips, garbage, foreign
//! records.

use super::history::{build_targets, plain_invocation, state_file};
use super::{harness_error_of, InvCtx};
use crate::engine::{Property, Stats, Violation};
use crate::gen::{self, IoOpts};
use crate::model::{self, Tid};
use crate::prng::Rng;
use crate::run::{run_invocation, RunResult};
use crate::scen::*;
use simrt::plan::{Fault, Gate, PlanEvent, PlanEventKind, Strategy};
use std::collections::{BTreeMap, BTreeSet};
use std::path::Path;

fn viol(oracle: &str, witness: String, message: String) -> Option<Violation> {
    Some(Violation { oracle: oracle.into(), witness, message })
}

/// Recursive copy preserving file mtimes (ns) and symlinks.
pub fn copy_tree(src: &Path, dst: &Path) -> std::io::Result<()> {
    use std::os::unix::fs::MetadataExt;
    std::fs::create_dir_all(dst)?;
    for e in std::fs::read_dir(src)? {
        let e = e?;
        let from = e.path();
        let to = dst.join(e.file_name());
        let md = std::fs::symlink_metadata(&from)?;
        if md.file_type().is_symlink() {
            let _ = std::os::unix::fs::symlink(std::fs::read_link(&from)?, &to);
        } else if md.is_dir() {
            copy_tree(&from, &to)?;
        } else if !md.is_file() {
            // a named pipe: re-create it (copying would block)
            use std::os::unix::ffi::OsStrExt;
            if let Ok(c) = std::ffi::CString::new(to.as_os_str().as_bytes()) {
                unsafe {
                    libc::mkfifo(c.as_ptr(), 0o644);
                }
            }
        } else {
            std::fs::copy(&from, &to)?;
            set_mtime_ns(&to, md.mtime(), md.mtime_nsec());
        }
    }
    Ok(())
}

fn set_mtime_ns(path: &Path, sec: i64, nsec: i64) {
    use std::os::unix::ffi::OsStrExt;
    if let Ok(c) = std::ffi::CString::new(path.as_os_str().as_bytes()) {
        let ts = libc::timespec { tv_sec: sec, tv_nsec: nsec };
        let times = [ts, ts];
        unsafe {
            libc::utimensat(libc::AT_FDCWD, c.as_ptr(), times.as_ptr(), 0);
        }
    }
}

fn restore(base: &Path, root: &Path) -> std::io::Result<()> {
    let _ = std::fs::remove_dir_all(root);
    copy_tree(base, root)
}

#[derive(Clone, Debug)]
enum Item {
    Crash(u64, bool),
    Signal(u64, bool),
    Fail { target: Tid, kind: String, revert: bool, io: Option<(String, u32)> },
    /// the n-th system call of a kind made by zinoma's blocking-pool closures (where records are
    /// written) fails (ENOSPC, EIO, EACCES), is interrupted (EINTR) or writes only part of its
    /// buffer; all scripts succeed
    Sys { site: String, occ: u32, kind: String, revert: bool },
    Prefix { target: Tid, len: usize },
    /// edit: 0 = tree unchanged, 1 = an own input rewritten, 2 = a declared output altered
    Flip { target: Tid, bit: usize, edit: u8 },
    /// one byte of the record set to zero (enum / Option tags, counts), a declared output altered
    ZeroByte { target: Tid, idx: usize },
    Garbage { target: Tid, seed: u64 },
    /// something that is not a file where the record should be: a directory (empty or not)
    DirAtRecord { target: Tid, populated: bool },
    /// a named pipe where the record should be (nobody writes to it)
    FifoAtRecord { target: Tid },
    Foreign { target: Tid, from: Tid },
}

impl Item {
    fn tag(&self, sc: &Scenario) -> String {
        match self {
            Item::Crash(k, rv) => format!("crash@{}{}", k, if *rv { "+revert" } else { "" }),
            Item::Signal(k, rv) => format!("signal@{}{}", k, if *rv { "+revert" } else { "" }),
            Item::Fail { target, kind, revert, io } => format!(
                "fail:{}:{}{}{}",
                sc.sim_id(target.0, &target.1),
                kind,
                match io {
                    Some((site, occ)) => format!("+{}#{}", site, occ),
                    None => String::new(),
                },
                if *revert { "+revert" } else { "" }
            ),
            Item::Sys { site, occ, kind, revert } => format!("{}#{}!{}{}", site, occ, kind, if *revert { "+revert" } else { "" }),
            Item::Prefix { target, len } => format!("prefix:{}:{}", sc.sim_id(target.0, &target.1), len),
            Item::Flip { target, bit, edit } => format!("flip:{}:{}:{}", sc.sim_id(target.0, &target.1), bit, ["same", "edited", "output-altered"][*edit as usize]),
            Item::ZeroByte { target, idx } => format!("zero:{}:{}", sc.sim_id(target.0, &target.1), idx),
            Item::Garbage { target, seed } => format!("garbage:{}:{}", sc.sim_id(target.0, &target.1), seed),
            Item::DirAtRecord { target, populated } => format!("dir-at-record:{}:{}", sc.sim_id(target.0, &target.1), if *populated { "populated" } else { "empty" }),
            Item::FifoAtRecord { target } => format!("fifo-at-record:{}", sc.sim_id(target.0, &target.1)),
            Item::Foreign { target, from } => format!("foreign:{}:{}", sc.sim_id(target.0, &target.1), sc.sim_id(from.0, &from.1)),
        }
    }
}

pub struct C05;

fn main_index(sc: &Scenario) -> Option<usize> {
    sc.steps.iter().rposition(|s| matches!(s, Step::Invoke(_)))
}

impl Property for C05 {
    fn id(&self) -> &'static str {
        "C05"
    }
    fn level(&self) -> &'static str {
        "fault_enumeration"
    }
    fn cases(&self, tier: &str) -> u64 {
        if tier == "quick" {
            20
        } else {
            1_500
        }
    }
    fn rule(&self) -> &'static str {
        "one case = a small generated project (1-4 build targets with inputs, X.output chains) + an optional priming invocation and edits + one main invocation under a seeded schedule. The main invocation is first run to completion (R0: N scheduling decisions, final bytes of every record), then ENUMERATED: zinoma killed (_exit) at every decision index 1..N; SIGINT at every decision index; each script that ran made to exit non-zero / die by signal / fail to spawn; each record replaced by every strict prefix (torn write; quick tier: 32 evenly spaced lengths incl. 0 and len-1), by single-bit flips (quick: ~100 positions; tree unchanged / an own input rewritten / a declared output altered), by every byte zeroed in turn with a declared output altered (quick: one record per case), by garbage and by another target's record; and, when the history has a priming run, the interruptions again (every 5th index) followed by a REVERT of the edited inputs to what the last successful record saw, plus each failing script combined with an I/O error (EIO) on zinoma's own n-th stat / unlink / open (n = 1..14), with EACCES on the n-th unlink, and with the target's `input:` removed from the project file for the failing run and put back afterwards. After each, a fault-free recovery invocation runs. Oracle: a target R0 had to run whose on-disk record is not byte-identical to R0's final record is started again, never skipped; recovery never panics/aborts/errs; a target whose declared input changed is never skipped whatever the record bytes; after a revert, a target whose script had started and not completed in the interrupted run is started again. evaluations = simulated invocations; Also enumerated: every write(2) (quick tier: ~24 evenly spaced ones) and open made while records are stored, failing with ENOSPC / EIO / EACCES, interrupted, or accepting half its buffer (after a short or interrupted write the record must be there in full; after an error the target must run again once its inputs are reverted); a directory, empty or populated, or a named pipe lying where the record should be. distinct_nontrivial = distinct (interrupted-run order hash, fault item) pairs in which the fault hit after the first script start"
    }
    fn assumptions(&self) -> Vec<&'static str> {
        vec![
            "crash points are the simulator's decision points (before every channel operation, blocking file-system call, process spawn/wait); torn record writes are covered by construction: save_env_state is File::create + one sequential stream without rename or fsync, so the reachable on-disk states are the prefixes",
            "exhaustive over decision indices of the sampled schedule, not over schedules",
        ]
    }
    fn generate(&self, rng: &mut Rng, _case: u64) -> Scenario {
        let mut sc = gen::gen_io(rng, &IoOpts { multi_project_pct: 20, max_targets: 3, cmd_pct: 15, cmd_output_pct: 0, own_output_inside_input_pct: 0, long_name_len: 0 });
        // builds only, reachable from the root by name
        let mut all = vec![];
        for &pi in &gen::loaded_projects(&sc, 0) {
            for t in &sc.projects[pi].targets {
                if t.kind == Kind::Build {
                    all.push(if pi == 0 { t.name.clone() } else { format!("{}::{}", sc.projects[pi].name.clone().unwrap(), t.name) });
                }
            }
        }
        if all.is_empty() {
            let mut t = Target::new("solo", Kind::Build);
            t.input.push(Res::Paths { paths: vec!["src/solo.txt".into()], extensions: None });
            t.output.push(Res::Paths { paths: vec!["out/solo.out".into()], extensions: None });
            t.writes.push("out/solo.out".into());
            sc.files.push(FileSpec { path: "p0/src/solo.txt".into(), kind: FileKind::File("solo v0\n".into()) });
            sc.projects[0].targets.push(t);
            all.push("solo".into());
        }
        if rng.chance(70) {
            let mut inv = plain_invocation(rng, &sc, 0, all.clone());
            inv.plan.strategy = Strategy::Fifo;
            sc.steps.push(Step::Invoke(inv));
            for n in 0..rng.range(1, 2) {
                if let Some(e) = super::history::gen_edit(rng, &sc, 100 + n as u64) {
                    sc.steps.push(e);
                }
            }
        }
        let inv = plain_invocation(rng, &sc, 0, all);
        sc.steps.push(Step::Invoke(inv));
        sc.label = format!("crash-{}", sc.label);
        sc
    }

    fn narrow(&self, sc: &Scenario, v: &Violation) -> Option<Scenario> {
        let f = v.witness.split(' ').find_map(|t| t.strip_prefix("focus="))?;
        let mut out = sc.clone();
        out.focus = Some(f.to_string());
        Some(out)
    }

    fn evaluate(&self, sc: &Scenario, root: &Path, stats: &mut Stats) -> Option<Violation> {
        let mi = main_index(sc)?;
        let main_inv = match &sc.steps[mi] {
            Step::Invoke(i) => i.clone(),
            _ => return None,
        };
        let mut case = match materialize(sc, root) {
            Ok(c) => c,
            Err(e) => {
                stats.harness_errors.push(format!("materialize: {}", e));
                return None;
            }
        };
        // prefix steps
        let primed = root.with_extension("primed");
        let _ = std::fs::remove_dir_all(&primed);
        let mut have_primed = false;
        let mut idx = 0;
        for st in &sc.steps[..mi] {
            if !matches!(st, Step::Invoke(_)) && idx > 0 && !have_primed {
                have_primed = copy_tree(root, &primed).is_ok();
            }
            match st {
                Step::Invoke(inv) => {
                    let r = run_invocation(sc, &mut case, inv, &format!("pre{}", idx));
                    idx += 1;
                    stats.absorb_run(inv, &r, false);
                    if let Some(h) = harness_error_of(&r) {
                        stats.harness_errors.push(h);
                        return None;
                    }
                }
                Step::Fs(op) => {
                    let mut clock = case.clock;
                    simrt::vfs::apply_plain(&case.root.clone(), &case.vars_dir(), op, &mut clock);
                    case.clock = clock;
                }
                Step::CorruptState { project, target, how } => super::history::apply_corruption(sc, &case, *project, target, how),
            }
        }
        let base = root.with_extension("base");
        let base2 = root.with_extension("base2");
        let _ = std::fs::remove_dir_all(&base);
        let _ = std::fs::remove_dir_all(&base2);
        let cleanup = |_: ()| {
            let _ = std::fs::remove_dir_all(&base);
            let _ = std::fs::remove_dir_all(&base2);
            let _ = std::fs::remove_dir_all(&primed);
        };
        if copy_tree(root, &base).is_err() {
            stats.harness_errors.push("copy_tree failed".into());
            return None;
        }
        let clock0 = case.clock;
        // R0
        let r0 = run_invocation(sc, &mut case, &main_inv, "r0");
        stats.absorb_run(&main_inv, &r0, false);
        if let Some(h) = harness_error_of(&r0) {
            stats.harness_errors.push(h);
            cleanup(());
            return None;
        }
        if !r0.main_returned() || r0.code != 0 {
            // not C05's business (C04 / C07)
            cleanup(());
            return None;
        }
        let clock_after_r0 = case.clock;
        let n_dec = r0.footer.as_ref().map(|f| f.decisions).unwrap_or(0);
        let choices = r0.footer.as_ref().map(|f| f.choices.clone()).unwrap_or_default();
        let c0 = InvCtx::new(sc, &main_inv, &r0);
        let builds = build_targets(sc);
        let started: BTreeSet<Tid> = builds.iter().filter(|t| !c0.starts(t).is_empty()).cloned().collect();
        let first_start = r0.procs.iter().filter(|p| p.kind == "build").map(|p| p.spawn_seq).min();
        let _ = first_start;
        let finals: BTreeMap<Tid, Vec<u8>> = builds.iter().filter_map(|t| std::fs::read(state_file(sc, &case, t)).ok().map(|b| (t.clone(), b))).collect();
        if copy_tree(root, &base2).is_err() {
            cleanup(());
            return None;
        }
        if stats.sample.is_none() {
            stats.sample = Some(serde_json::json!({
                "scenario": sc.label,
                "history": sc.steps.iter().map(|s| match s {
                    Step::Invoke(i) => format!("invoke {}", i.args.join(" ")),
                    Step::Fs(op) => format!("edit {}", serde_json::to_string(op).unwrap_or_default()),
                    _ => "corrupt".into(),
                }).collect::<Vec<_>>(),
                "main_invocation": {"strategy": main_inv.plan.strategy, "decisions": n_dec, "scripts_run": started.iter().map(|t| sc.sim_id(t.0, &t.1)).collect::<Vec<_>>(), "record_sizes": finals.iter().map(|(t, b)| (sc.sim_id(t.0, &t.1), b.len())).collect::<BTreeMap<_, _>>()},
                "enumeration": "crash@1..N, signal@1..N, script outcomes, record prefixes, bit flips, garbage, foreign",
            }));
        }
        // the plan of interrupted runs: same choices as R0
        let mut replay_plan = main_inv.plan.clone();
        replay_plan.choices = Some(choices);
        replay_plan.pad_zero = false;
        // enumeration
        let thorough = std::env::var("ZCHECK_TIER").map(|t| t == "thorough").unwrap_or(false);
        let mut items: Vec<Item> = vec![];
        for k in 1..=n_dec {
            items.push(Item::Crash(k, false));
        }
        let sstride = if thorough { 1 } else { 2 };
        let mut k = 1;
        while k <= n_dec {
            items.push(Item::Signal(k, false));
            k += sstride;
        }
        for t in &started {
            for kind in ["exit=1", "sig=9", "eagain", "midfail=2"] {
                items.push(Item::Fail { target: t.clone(), kind: kind.into(), revert: false, io: None });
            }
        }
        // a full disk, an I/O error, an interrupted or short write while a record is being stored
        let n_writes = r0.footer.as_ref().and_then(|f| f.probes.get("closure-syscall-write").copied()).unwrap_or(0) as u32;
        let n_opens = r0.footer.as_ref().and_then(|f| f.probes.get("closure-syscall-open-for-write").copied()).unwrap_or(0) as u32;
        let wstride = if thorough { 1 } else { (n_writes / 24).max(1) };
        let mut occ = 1;
        let mut turn = 0usize;
        while occ <= n_writes {
            // quick tier: a full disk at every sampled call, the other outcomes in rotation
            for (i, kind) in ["enospc", "short", "eintr", "eio"].iter().enumerate() {
                if thorough || i == 0 || i == 1 + turn % 3 {
                    items.push(Item::Sys { site: "sys.write".into(), occ, kind: kind.to_string(), revert: have_primed });
                }
            }
            turn += 1;
            occ += wstride;
        }
        for occ in 1..=n_opens.min(if thorough { 12 } else { 4 }) {
            for kind in ["eacces", "enospc", "eintr"] {
                items.push(Item::Sys { site: "sys.open-for-write".into(), occ, kind: kind.into(), revert: have_primed });
            }
        }
        if have_primed {
            // the same interruptions followed by a revert of the edited inputs to what the last
            // successful record saw: a record that wrongly survived would now match
            let rstride = if thorough { 2 } else { 5 };
            let mut k = 1;
            while k <= n_dec {
                items.push(Item::Crash(k, true));
                items.push(Item::Signal(k, true));
                k += rstride;
            }
            for t in &started {
                items.push(Item::Fail { target: t.clone(), kind: "exit=1".into(), revert: true, io: None });
                // an I/O error on one of zinoma's own calls on the way to the failing script
                for site in ["fs.metadata", "fs.remove_file", "fs.open"] {
                    for occ in 1..=(if thorough { 40 } else { 14 }) {
                        items.push(Item::Fail { target: t.clone(), kind: "exit=1".into(), revert: true, io: Some((site.to_string(), occ)) });
                    }
                }
                // permission problems instead of I/O errors on the unlink of the old record
                for occ in 1..=(if thorough { 12 } else { 5 }) {
                    items.push(Item::Fail { target: t.clone(), kind: "exit=1".into(), revert: true, io: Some(("fs.remove_file!eacces".to_string(), occ)) });
                }
                // the target's `input:` removed from the project file for the failing run
                // (forcing a run while debugging), put back afterwards
                if sc.target(t.0, &t.1).map(|x| !x.input.is_empty()).unwrap_or(false) {
                    items.push(Item::Fail { target: t.clone(), kind: "exit=1".into(), revert: true, io: Some(("config.strip-input".to_string(), 0)) });
                }
            }
        }
        let mut zero_budget = 1usize;
        for (t, bytes) in &finals {
            if !started.contains(t) {
                continue;
            }
            let len = bytes.len();
            let mut lens: BTreeSet<usize> = BTreeSet::new();
            if thorough {
                lens.extend(0..len);
            } else {
                for i in 0..32 {
                    lens.insert(i * len / 32);
                }
                lens.insert(len.saturating_sub(1));
                lens.insert(0);
                for i in 0..8.min(len) {
                    lens.insert(i);
                    lens.insert(len - 1 - i);
                }
            }
            for l in lens {
                if l < len {
                    items.push(Item::Prefix { target: t.clone(), len: l });
                }
            }
            let nbits = len * 8;
            let bits: Vec<usize> = if thorough && nbits <= 6000 {
                (0..nbits).collect()
            } else {
                // every bit of the first 24 bytes (lengths), then evenly spaced
                let mut v: BTreeSet<usize> = (0..(24 * 8).min(nbits)).step_by(3).collect();
                for i in 0..if thorough { 600 } else { 40 } {
                    v.insert(i * nbits / if thorough { 600 } else { 40 });
                }
                // high bits of every 8-byte word in the first 128 bytes: length fields
                for w in 0..(len / 8).min(16) {
                    v.insert(w * 8 * 8 + 62);
                    v.insert(w * 8 * 8 + 40);
                }
                v.into_iter().filter(|b| *b < nbits).collect()
            };
            for (i, b) in bits.iter().enumerate() {
                items.push(Item::Flip { target: t.clone(), bit: *b, edit: [0u8, 2, 0, 1][i % 4] });
            }
            if thorough || zero_budget > 0 {
                // every byte zeroed in turn, with a declared output altered: whatever the record
                // then says, the target's resources changed
                zero_budget = zero_budget.saturating_sub(1);
                for idx in 0..len {
                    if bytes[idx] != 0 {
                        items.push(Item::ZeroByte { target: t.clone(), idx });
                    }
                }
            }
            items.push(Item::Garbage { target: t.clone(), seed: len as u64 * 7919 + 1 });
            items.push(Item::Garbage { target: t.clone(), seed: len as u64 * 104729 + 2 });
            items.push(Item::DirAtRecord { target: t.clone(), populated: false });
            items.push(Item::DirAtRecord { target: t.clone(), populated: true });
            items.push(Item::FifoAtRecord { target: t.clone() });
            for other in finals.keys() {
                if other != t {
                    items.push(Item::Foreign { target: t.clone(), from: other.clone() });
                }
            }
        }
        if let Some(f) = &sc.focus {
            items.retain(|it| &it.tag(sc) == f);
        }
        let mut recovery = main_inv.clone();
        recovery.plan = simrt::plan::Plan { seed: 7, ..Default::default() };
        recovery.plan.events = main_inv.plan.events.clone();
        let mut verdict: Option<Violation> = None;
        for it in &items {
            stats.enumerated += 1;
            let tag = it.tag(sc);
            let interrupted: Option<RunResult>;
            let mut edited_ok = false;
            match it {
                Item::Crash(..) | Item::Signal(..) | Item::Fail { .. } | Item::Sys { .. } => {
                    if restore(&base, root).is_err() {
                        stats.harness_errors.push("restore failed".into());
                        break;
                    }
                    case.clock = clock0;
                    let mut inv = main_inv.clone();
                    inv.plan = replay_plan.clone();
                    let mut stripped: Option<usize> = None;
                    match it {
                        Item::Crash(k, _) => inv.plan.crash_at = Some(*k),
                        Item::Sys { site, occ, kind, .. } => inv.plan.faults.push(Fault { site: site.clone(), occurrence: *occ, kind: kind.clone() }),
                        Item::Signal(k, _) => inv.plan.events.insert(0, PlanEvent { id: "sigk".into(), kind: PlanEventKind::Signal, gate: Gate::Step(*k) }),
                        Item::Fail { target, kind, io, .. } => {
                            let id = sc.sim_id(target.0, &target.1);
                            let site = if kind == "eagain" { format!("proc.spawn:{}", id) } else { format!("proc.exit:{}", id) };
                            inv.plan.faults.push(Fault { site, occurrence: 1, kind: kind.clone() });
                            if let Some((s, occ)) = io {
                                if s == "config.strip-input" {
                                    // same project, the target declared without its own inputs
                                    let mut alt = sc.clone();
                                    if let Some(tt) = alt.projects[target.0].targets.iter_mut().find(|x| x.name == target.1) {
                                        tt.input.clear();
                                        for d in tt.deps.iter_mut() {
                                            if d.via_output {
                                                d.via_output = false;
                                                d.via_dep = true;
                                            }
                                        }
                                    }
                                    let _ = std::fs::write(case.project_dir(sc, target.0).join("zinoma.yml"), alt.yaml(target.0));
                                    stripped = Some(target.0);
                                } else if let Some((site, kind)) = s.split_once('!') {
                                    inv.plan.faults.push(Fault { site: site.to_string(), occurrence: *occ, kind: kind.to_string() });
                                } else {
                                    inv.plan.faults.push(Fault { site: s.clone(), occurrence: *occ, kind: "eio".into() });
                                }
                            }
                        }
                        _ => {}
                    }
                    let r1 = run_invocation(sc, &mut case, &inv, "r1");
                    if let Some(p) = stripped {
                        let _ = std::fs::write(case.project_dir(sc, p).join("zinoma.yml"), sc.yaml(p));
                    }
                    let hit_after_start = r1.procs.iter().any(|p| p.kind == "build");
                    stats.absorb_run(&inv, &r1, false);
                    if hit_after_start {
                        stats.nontrivial.insert(r1.order_hash ^ simrt::stamp::fnv(simrt::stamp::FNV_INIT, tag.as_bytes()));
                    }
                    if matches!(it, Item::Crash(..)) && r1.code != 137 {
                        // the crash index was not reached: the run diverged from R0
                        if r1.main_returned() {
                            stats.harness_errors.push(format!("crash item {} not reached: replay of R0 diverged", tag));
                            break;
                        }
                    }
                    let reverting = matches!(it, Item::Crash(_, true) | Item::Signal(_, true) | Item::Fail { revert: true, .. } | Item::Sys { revert: true, .. });
                    if reverting {
                        revert_inputs(sc, &mut case, &primed, &started);
                    }
                    interrupted = Some(r1);
                }
                Item::Prefix { target, len } => {
                    if restore(&base2, root).is_err() {
                        break;
                    }
                    case.clock = clock_after_r0;
                    let p = state_file(sc, &case, target);
                    let b = &finals[target];
                    let _ = std::fs::write(&p, &b[..*len]);
                    interrupted = None;
                }
                Item::Flip { target, bit, edit } => {
                    if restore(&base2, root).is_err() {
                        break;
                    }
                    case.clock = clock_after_r0;
                    let p = state_file(sc, &case, target);
                    let mut b = finals[target].clone();
                    b[bit / 8] ^= 1 << (bit % 8);
                    let _ = std::fs::write(&p, &b);
                    edited_ok = match *edit {
                        1 => edit_an_input(sc, &mut case, target),
                        2 => alter_an_output(sc, &mut case, target),
                        _ => false,
                    } && !mtime_coincides(&b, case.clock);
                    interrupted = None;
                }
                Item::ZeroByte { target, idx } => {
                    if restore(&base2, root).is_err() {
                        break;
                    }
                    case.clock = clock_after_r0;
                    let p = state_file(sc, &case, target);
                    let mut b = finals[target].clone();
                    b[*idx] = 0;
                    let _ = std::fs::write(&p, &b);
                    edited_ok = alter_an_output(sc, &mut case, target) && !mtime_coincides(&b, case.clock);
                    interrupted = None;
                }
                Item::Garbage { target, seed } => {
                    if restore(&base2, root).is_err() {
                        break;
                    }
                    case.clock = clock_after_r0;
                    let p = state_file(sc, &case, target);
                    let mut r = Rng::new(*seed);
                    let n = r.range(1, 300);
                    let b: Vec<u8> = (0..n).map(|_| r.next() as u8).collect();
                    let _ = std::fs::write(&p, &b);
                    interrupted = None;
                }
                Item::DirAtRecord { target, populated } => {
                    if restore(&base2, root).is_err() {
                        break;
                    }
                    case.clock = clock_after_r0;
                    let p = state_file(sc, &case, target);
                    let _ = std::fs::remove_file(&p);
                    let _ = std::fs::create_dir_all(&p);
                    if *populated {
                        let _ = std::fs::write(p.join("leftover"), b"not a record\n");
                    }
                    interrupted = None;
                }
                Item::FifoAtRecord { target } => {
                    if restore(&base2, root).is_err() {
                        break;
                    }
                    case.clock = clock_after_r0;
                    let p = state_file(sc, &case, target);
                    let _ = std::fs::remove_file(&p);
                    if let Ok(c) = std::ffi::CString::new(p.to_string_lossy().as_bytes()) {
                        unsafe {
                            libc::mkfifo(c.as_ptr(), 0o644);
                        }
                    }
                    interrupted = None;
                }
                Item::Foreign { target, from } => {
                    if restore(&base2, root).is_err() {
                        break;
                    }
                    case.clock = clock_after_r0;
                    let _ = std::fs::write(state_file(sc, &case, target), &finals[from]);
                    interrupted = None;
                }
            }
            // on-disk records after the interruption
            // (only a regular file is read: opening a named pipe would block the driver itself)
            let on_disk: BTreeMap<Tid, Option<Vec<u8>>> = builds
                .iter()
                .map(|t| {
                    let p = state_file(sc, &case, t);
                    (t.clone(), if std::fs::symlink_metadata(&p).map(|m| m.file_type().is_file()).unwrap_or(false) { std::fs::read(&p).ok() } else { None })
                })
                .collect();
            let in_before: BTreeMap<Tid, model::ResState> = builds.iter().map(|t| (t.clone(), super::history::states(sc, &case, t).0)).collect();
            let _ = in_before;
            let r2 = run_invocation(sc, &mut case, &recovery, "r2");
            stats.absorb_run(&recovery, &r2, false);
            if matches!(it, Item::Prefix { .. } | Item::Flip { .. } | Item::ZeroByte { .. } | Item::Garbage { .. } | Item::Foreign { .. } | Item::DirAtRecord { .. } | Item::FifoAtRecord { .. }) {
                stats.nontrivial.insert(r2.order_hash ^ simrt::stamp::fnv(simrt::stamp::FNV_INIT, tag.as_bytes()));
                *stats.faults.entry(match it {
                    Item::Prefix { .. } => "torn-record-prefix".to_string(),
                    Item::Flip { .. } => "record-bit-flip".to_string(),
                    Item::ZeroByte { .. } => "record-byte-zeroed".to_string(),
                    Item::Garbage { .. } => "record-garbage".to_string(),
                    Item::DirAtRecord { .. } => "directory-at-record-path".to_string(),
                    Item::FifoAtRecord { .. } => "named-pipe-at-record-path".to_string(),
                    _ => "record-foreign".to_string(),
                }).or_insert(0) += 1;
            } else if matches!(it, Item::Signal(..)) {
                *stats.faults.entry("signal-at-decision-index".into()).or_insert(0) += 1;
            }
            if let (Item::Sys { kind, .. }, Some(r1)) = (it, interrupted.as_ref()) {
                // an interrupted or short write is no error: the run must end as R0 did
                if matches!(kind.as_str(), "short" | "eintr") {
                    if let Some(t) = started.iter().find(|t| r1.logs().any(|e| e.rest.starts_with(&format!("WARN {} - Failed to", sc.display(t.0, &t.1))))) {
                        verdict = viol(
                            "record-not-written-after-benign-syscall-outcome",
                            format!("target={} focus={}", sc.display(t.0, &t.1), tag),
                            format!("[{}] is a legal outcome of the call, not an error, yet {} was not recorded: {}", tag, sc.display(t.0, &t.1), r1.logs().find(|e| e.rest.contains("Failed to")).map(|e| e.rest.clone()).unwrap_or_default().chars().take(200).collect::<String>()),
                        );
                        break;
                    }
                }
                if let Some(a) = r1.abnormal() {
                    verdict = viol("abnormal-exit-on-io-error", format!("how={} focus={}", a, tag), format!("under [{}] zinoma ended abnormally ({})", tag, a));
                    break;
                }
            }
            let c2 = InvCtx::new(sc, &recovery, &r2);
            if let Some(a) = r2.abnormal() {
                verdict = viol(
                    "recovery-abnormal-exit",
                    format!("kind={} how={} focus={}", it.tag(sc).split(':').next().unwrap_or(""), a, tag),
                    format!("after [{}] the next invocation ended abnormally ({}) instead of discarding the record and rebuilding; stderr: {}", tag, a, r2.stderr.lines().rev().take(2).collect::<Vec<_>>().join(" | ")),
                );
                break;
            }
            if harness_error_of(&r2).is_some() || !r2.main_returned() {
                if r2.exit_kind() == "stall" {
                    verdict = viol("recovery-stalled", format!("focus={}", tag), format!("after [{}] the next invocation hangs", tag));
                    break;
                }
                continue;
            }
            if r2.code != 0 {
                verdict = viol(
                    "recovery-error",
                    format!("kind={} focus={}", it.tag(sc).split(':').next().unwrap_or(""), tag),
                    format!("after [{}] the next invocation failed with status {}: {}", tag, r2.code, r2.stderr.lines().rev().take(2).collect::<Vec<_>>().join(" | ")),
                );
                break;
            }
            for t in &builds {
                if !model::has_inputs(sc, t) {
                    continue;
                }
                let disp = sc.display(t.0, &t.1);
                let skipped = !r2.skips(&disp).is_empty();
                if !skipped {
                    continue;
                }
                let must_run = match it {
                    // a crashed run is a prefix of R0: the record is complete iff its bytes equal R0's
                    Item::Crash(_, false) => started.contains(t) && on_disk[t].as_ref() != finals.get(t),
                    // reverted inputs: only a target whose script actually started in the
                    // interrupted run and did not complete must run again (an untouched old
                    // record legitimately matches the reverted inputs)
                    Item::Crash(_, true) | Item::Signal(_, true) | Item::Fail { revert: true, .. } | Item::Sys { revert: true, .. } => {
                        let r1 = interrupted.as_ref();
                        let spawned = r1.map(|r| !r.insts(&sc.sim_id(t.0, &t.1)).is_empty()).unwrap_or(false);
                        let done = r1.map(|r1| completed_in(r1, sc, t, &disp) && on_disk[t].is_some()).unwrap_or(false);
                        spawned && !done
                    }
                    // after a signal or failure the run diverges from R0 (other completion order,
                    // other logical mtimes): "done" = zinoma reported the build's success and
                    // stored its state in that run
                    Item::Signal(_, false) | Item::Fail { revert: false, .. } | Item::Sys { revert: false, .. } => {
                        let done = interrupted.as_ref().map(|r1| completed_in(r1, sc, t, &disp) && on_disk[t].is_some()).unwrap_or(false);
                        started.contains(t) && !done
                    }
                    Item::Prefix { target, .. } | Item::Garbage { target, .. } | Item::DirAtRecord { target, .. } | Item::FifoAtRecord { target } => target == t,
                    Item::Flip { target, .. } | Item::ZeroByte { target, .. } => target == t && edited_ok,
                    Item::Foreign { target, from } => target == t && finals.get(from) != finals.get(t) && !foreign_matches(sc, &case, t, from),
                };
                if must_run {
                    let why = match it {
                        Item::Crash(..) | Item::Signal(..) | Item::Fail { .. } | Item::Sys { .. } => {
                            let state = match &on_disk[t] {
                                None => "absent".to_string(),
                                Some(b) => format!("{} bytes, differs from the completed record ({} bytes)", b.len(), finals.get(t).map(|f| f.len()).unwrap_or(0)),
                            };
                            format!("its record on disk after the interruption is {}", state)
                        }
                        Item::Prefix { len, .. } => format!("its record is a {}-byte prefix of the {}-byte record (torn write)", len, finals[t].len()),
                        Item::Flip { .. } => "its record has a flipped bit and one of its declared inputs or outputs changed".to_string(),
                        Item::ZeroByte { idx, .. } => format!("byte {} of its record is zeroed and one of its declared outputs was altered", idx),
                        Item::Garbage { .. } => "its record is garbage".to_string(),
                        Item::DirAtRecord { .. } => "a directory lies where its record should be".to_string(),
                        Item::FifoAtRecord { .. } => "a named pipe lies where its record should be".to_string(),
                        Item::Foreign { from, .. } => format!("its record file holds the record of {}", sc.display(from.0, &from.1)),
                    };
                    let _ = interrupted.as_ref();
                    verdict = viol(
                        "skipped-after-interruption",
                        format!("kind={} target={} focus={}", it.tag(sc).split(':').next().unwrap_or("").split('@').next().unwrap_or(""), disp, tag),
                        format!("after [{}] the next invocation skipped {} although {}", tag, disp, why),
                    );
                    break;
                }
            }
            if verdict.is_some() {
                break;
            }
            let _ = c2;
        }
        cleanup(());
        verdict
    }
}

/// Did `t` complete successfully in run `r`? Ground truth first: the exit status of its script
/// as the virtual process reported it (zinoma's own "Build success" line is not trusted alone).
fn completed_in(r: &RunResult, sc: &Scenario, t: &Tid, disp: &str) -> bool {
    let insts = r.insts(&sc.sim_id(t.0, &t.1));
    let exited_ok = insts.last().map(|p| p.exit.as_ref().map(|e| e.1 == 0).unwrap_or(false)).unwrap_or(false);
    exited_ok
        && r.logs().any(|e| e.rest == format!("INFO {} - Build success (took: _ms)", disp))
        && !r.logs().any(|e| e.rest.starts_with(&format!("WARN {} - Failed to", disp)))
}

/// Would the foreign record legitimately equal this target's current state? (two targets with
/// identical declared resources)
fn foreign_matches(sc: &Scenario, case: &Case, t: &Tid, from: &Tid) -> bool {
    let a = model::declared(sc, &case.root, t);
    let b = model::declared(sc, &case.root, from);
    let sa = (model::res_state(&a.0, &case.vars_dir()), model::res_state(&a.1, &case.vars_dir()));
    let sb = (model::res_state(&b.0, &case.vars_dir()), model::res_state(&b.1, &case.vars_dir()));
    sa == sb
}

/// Rewrite one declared own input file of the target (content and mtime change).
fn edit_an_input(sc: &Scenario, case: &mut Case, t: &Tid) -> bool {
    // own resources only: an edited producer output would be regenerated by the producer
    let (inputs, _) = model::declared(sc, &case.root, t);
    let inputs: Vec<_> = inputs.into_iter().take(1).collect();
    for (res, dir) in &inputs {
        let files = model::denote(res, dir);
        if let Some(f) = files.iter().next() {
            let _ = std::fs::write(f, b"changed after the record was damaged\n");
            case.clock += 1;
            simrt::vfs::set_mtime(f, case.clock);
            return true;
        }
    }
    // no file input: change a command variable if there is one
    for (res, dir) in &inputs {
        for r in res {
            if let Res::Cmd { key } = r {
                let rel = dir.strip_prefix(&case.root).map(|p| p.to_string_lossy().replace('/', "+")).unwrap_or_default();
                let _ = std::fs::write(case.vars_dir().join(format!("{}__{}", rel, key)), b"changed\n");
                return true;
            }
        }
    }
    false
}

/// Restore the own declared input files of `targets` to what they were right after priming.
fn revert_inputs(sc: &Scenario, case: &mut Case, primed: &Path, targets: &BTreeSet<Tid>) {
    use std::os::unix::fs::MetadataExt;
    for t in targets {
        let (inputs, _) = model::declared(sc, &case.root, t);
        let own: Vec<_> = inputs.into_iter().take(1).collect();
        // files that exist now
        let mut now: BTreeSet<std::path::PathBuf> = BTreeSet::new();
        for (res, dir) in &own {
            now.extend(model::denote(res, dir));
        }
        // files that existed at priming time
        let mut then: BTreeSet<std::path::PathBuf> = BTreeSet::new();
        for (res, dir) in &own {
            if let Ok(rel) = dir.strip_prefix(&case.root) {
                for f in model::denote(res, &primed.join(rel)) {
                    if let Ok(r) = f.strip_prefix(primed) {
                        then.insert(case.root.join(r));
                    }
                }
            }
        }
        for f in now.difference(&then) {
            let _ = std::fs::remove_file(f);
        }
        for f in &then {
            if let Ok(rel) = f.strip_prefix(&case.root) {
                let src = primed.join(rel);
                if let (Ok(b), Ok(md)) = (std::fs::read(&src), std::fs::metadata(&src)) {
                    if let Some(d) = f.parent() {
                        let _ = std::fs::create_dir_all(d);
                    }
                    let _ = std::fs::write(f, b);
                    set_mtime_ns(f, md.mtime(), md.mtime_nsec());
                }
            }
        }
        // command variables
        for (res, dir) in &own {
            for r in res {
                if let Res::Cmd { key } = r {
                    let rel = dir.strip_prefix(&case.root).map(|p| p.to_string_lossy().replace('/', "+")).unwrap_or_default();
                    let name = format!("{}__{}", rel, key);
                    if let Ok(b) = std::fs::read(primed.join(".vars").join(&name)) {
                        let _ = std::fs::write(case.vars_dir().join(&name), b);
                    }
                }
            }
        }
    }
}

/// Alter (or delete) one declared output file of the target.
fn alter_an_output(sc: &Scenario, case: &mut Case, t: &Tid) -> bool {
    let (_, outputs) = model::declared(sc, &case.root, t);
    for (res, dir) in &outputs {
        let files = model::denote(res, dir);
        if let Some(f) = files.iter().next() {
            if files.len() % 2 == 0 {
                let _ = std::fs::remove_file(f);
            } else {
                let _ = std::fs::write(f, b"output altered after the record was damaged\n");
                case.clock += 1;
                simrt::vfs::set_mtime(f, case.clock);
            }
            return true;
        }
    }
    false
}

/// The damaged record may, by coincidence, hold exactly the modification time the harness just
/// gave the altered file (a flipped bit turns tick 17 into tick 19, and 19 is the next tick):
/// the mtime-or-content rule then legitimately says "unchanged". Serialised form of a
/// `Duration`: seconds as u64 LE, nanoseconds as u32 LE.
fn mtime_coincides(record: &[u8], tick: u64) -> bool {
    let secs = (simrt::vfs::MTIME_BASE + tick as i64) as u64;
    let mut pat = secs.to_le_bytes().to_vec();
    pat.extend_from_slice(&0u32.to_le_bytes());
    record.windows(pat.len()).any(|w| w == &pat[..])
}
