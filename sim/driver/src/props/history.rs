//! Invocation/edit histories against the reference model: C02, C03, C13, C18 (skip decisions),
//! C12 (`--clean`).

use super::{harness_error_of, sample_of, InvCtx};
use crate::engine::{Property, Stats, Violation};
use crate::gen::{self, IoOpts};
use crate::model::{self, ResState, Tid};
use crate::prng::Rng;
use crate::run::{run_invocation, RunResult};
use crate::scen::*;
use simrt::plan::{Fault, FsOp};
use std::collections::{BTreeMap, BTreeSet};
use std::path::{Path, PathBuf};

fn viol(oracle: &str, witness: String, message: String) -> Option<Violation> {
    Some(Violation { oracle: oracle.into(), witness, message })
}

#[derive(Clone, Debug)]
pub struct Record {
    pub input: ResState,
    pub output: ResState,
}

#[derive(Clone, Debug)]
pub enum Rec {
    /// no usable record: the script must run
    None,
    /// the target completed successfully and its state was stored in full
    Some(Record),
    /// a record may or may not be usable (corrupted bytes, crash around the write): a skip is
    /// acceptable only if the model comparison says "same", a rebuild always
    Maybe(Record),
}

pub struct Model {
    pub records: BTreeMap<Tid, Rec>,
    /// the target's own last record, kept when another target's record was copied over it: if
    /// nothing changed since the target's own last successful completion a skip is right,
    /// whatever the foreign record holds
    pub own_before_foreign: BTreeMap<Tid, Record>,
}

pub fn states(sc: &Scenario, case: &Case, t: &Tid) -> (ResState, ResState) {
    let (i, o) = model::declared(sc, &case.root, t);
    (model::res_state(&i, &case.vars_dir()), model::res_state(&o, &case.vars_dir()))
}

pub fn build_targets(sc: &Scenario) -> Vec<Tid> {
    sc.all_targets().into_iter().filter(|t| model::kind_of(sc, t) == Some(Kind::Build)).collect()
}

#[derive(Clone, Copy, PartialEq, Eq)]
pub enum Which {
    Sound,
    Complete,
    Both,
}

pub struct Observed {
    pub skipped: bool,
    pub started: bool,
}

/// What the model says about `t` for the decision observed in this invocation.
fn judge(
    sc: &Scenario,
    t: &Tid,
    rec: &Rec,
    cur_in: &ResState,
    cur_out: &ResState,
    obs: &Observed,
    which: Which,
    ctx: &str,
) -> Option<Violation> {
    let disp = sc.display(t.0, &t.1);
    let cmp = |r: &Record| {
        let (wi, si) = model::same_state(&r.input, cur_in);
        let (wo, so) = model::same_state(&r.output, cur_out);
        (wi && wo, si && so, wi, wo)
    };
    if obs.skipped && which != Which::Complete {
        match rec {
            Rec::None => {
                return viol(
                    "skipped-without-record",
                    format!("target={} {}", disp, ctx),
                    format!("{} was skipped although no successful, fully recorded completion precedes this invocation ({})", disp, ctx),
                )
            }
            Rec::Some(r) | Rec::Maybe(r) => {
                let (weak, _, wi, wo) = cmp(r);
                if !weak {
                    let part = if !wi { "input" } else { "output" };
                    let _ = wo;
                    return viol(
                        "skipped-although-changed",
                        format!("target={} changed={} {}", disp, part, describe_diff(if !wi { &r.input } else { &r.output }, if !wi { cur_in } else { cur_out })),
                        format!("{} was skipped although its declared {} resources differ from what was recorded at its last successful completion: {}", disp, part, describe_diff(if !wi { &r.input } else { &r.output }, if !wi { cur_in } else { cur_out })),
                    );
                }
            }
        }
    }
    if obs.started && which != Which::Sound && model::has_inputs(sc, t) {
        if let Rec::Some(r) = rec {
            let (_, strong, _, _) = cmp(r);
            if strong {
                return viol(
                    "rebuilt-although-unchanged",
                    format!("target={} {}", disp, ctx),
                    format!("{} declares inputs, completed successfully before and nothing it declares changed, yet its script was run again ({})", disp, ctx),
                );
            }
        }
    }
    if !model::has_inputs(sc, t) && obs.skipped && which != Which::Sound {
        return viol("skipped-without-inputs", format!("target={}", disp), format!("{} declares no input but was skipped", disp));
    }
    None
}

fn describe_diff(rec: &ResState, cur: &ResState) -> String {
    let mut parts = vec![];
    for (p, (mt, c)) in &cur.files {
        match rec.files.get(p) {
            None => parts.push(format!("added:{}", p.file_name().map(|n| n.to_string_lossy().into_owned()).unwrap_or_default())),
            Some((rmt, rc)) if rmt != mt && rc != c => parts.push(format!("rewritten:{}", p.file_name().map(|n| n.to_string_lossy().into_owned()).unwrap_or_default())),
            _ => {}
        }
    }
    for p in rec.files.keys() {
        if !cur.files.contains_key(p) {
            parts.push(format!("removed:{}", p.file_name().map(|n| n.to_string_lossy().into_owned()).unwrap_or_default()));
        }
    }
    for (k, v) in &cur.cmds {
        if rec.cmds.get(k) != Some(v) {
            parts.push(format!("cmd:{}@{}", k.1, k.0.file_name().map(|n| n.to_string_lossy().into_owned()).unwrap_or_default()));
        }
    }
    if rec.cmds.len() != cur.cmds.len() {
        parts.push("cmd-set".into());
    }
    parts.truncate(4);
    parts.join(",")
}

pub fn state_file(sc: &Scenario, case: &Case, t: &Tid) -> PathBuf {
    case.project_dir(sc, t.0).join(".zinoma").join(format!("{}.checksums", sc.display(t.0, &t.1)))
}

pub fn apply_corruption(sc: &Scenario, case: &Case, project: usize, target: &str, how: &Corrupt) {
    let p = state_file(sc, case, &(project, target.to_string()));
    let bytes = std::fs::read(&p).unwrap_or_default();
    match how {
        Corrupt::Truncate(n) => {
            if p.exists() {
                let _ = std::fs::write(&p, &bytes[..(*n).min(bytes.len())]);
            }
        }
        Corrupt::FlipBit(bit) => {
            if !bytes.is_empty() {
                let mut b = bytes.clone();
                let i = (bit / 8) % b.len();
                b[i] ^= 1 << (bit % 8);
                let _ = std::fs::write(&p, b);
            }
        }
        Corrupt::Garbage(seed) => {
            let mut r = Rng::new(*seed);
            let n = r.range(1, 200);
            let b: Vec<u8> = (0..n).map(|_| r.next() as u8).collect();
            if let Some(d) = p.parent() {
                let _ = std::fs::create_dir_all(d);
            }
            let _ = std::fs::write(&p, b);
        }
        Corrupt::Empty => {
            if p.exists() {
                let _ = std::fs::write(&p, b"");
            }
        }
        Corrupt::Remove => {
            let _ = std::fs::remove_file(&p);
        }
        Corrupt::Foreign { project: fp, target: ft } => {
            let src = state_file(sc, case, &(*fp, ft.clone()));
            if let Ok(b) = std::fs::read(src) {
                if let Some(d) = p.parent() {
                    let _ = std::fs::create_dir_all(d);
                }
                let _ = std::fs::write(&p, b);
            }
        }
    }
}

pub struct HistoryOutcome {
    pub violation: Option<Violation>,
}

/// Per-invocation callback data for property-specific extra oracles.
pub struct InvObs<'a> {
    pub sc: &'a Scenario,
    pub case: &'a Case,
    pub inv: &'a Invocation,
    pub r: &'a RunResult,
    pub before_tree: &'a BTreeMap<PathBuf, Entry>,
    pub after_tree: &'a BTreeMap<PathBuf, Entry>,
    /// the invocation was killed half-way: deletions may be partial, nothing else may differ
    pub crashed: bool,
}

#[derive(Clone, Debug, PartialEq)]
pub enum Entry {
    File(i128, Vec<u8>),
    Dir,
    Symlink(PathBuf),
    Other,
}

/// Recursive snapshot of the case tree (names, types, link targets, contents, mtimes of files),
/// excluding the driver's own `.run` and `.vars` directories.
pub fn snapshot_tree(root: &Path) -> BTreeMap<PathBuf, Entry> {
    use std::os::unix::fs::MetadataExt;
    let mut m = BTreeMap::new();
    fn rec(p: &Path, root: &Path, m: &mut BTreeMap<PathBuf, Entry>) {
        let rd = match std::fs::read_dir(p) {
            Ok(r) => r,
            Err(_) => return,
        };
        for e in rd.flatten() {
            let path = e.path();
            if p == root && (e.file_name() == ".run" || e.file_name() == ".vars") {
                continue;
            }
            let md = match std::fs::symlink_metadata(&path) {
                Ok(m) => m,
                Err(_) => continue,
            };
            let rel = path.strip_prefix(root).unwrap().to_path_buf();
            if md.file_type().is_symlink() {
                m.insert(rel, Entry::Symlink(std::fs::read_link(&path).unwrap_or_default()));
            } else if md.is_dir() {
                m.insert(rel, Entry::Dir);
                rec(&path, root, m);
            } else if md.is_file() {
                m.insert(rel, Entry::File(md.mtime() as i128 * 1_000_000_000 + md.mtime_nsec() as i128, std::fs::read(&path).unwrap_or_default()));
            } else {
                m.insert(rel, Entry::Other);
            }
        }
    }
    rec(root, root, &mut m);
    m
}

pub type Extra = fn(&InvObs, &Model) -> Option<Violation>;

/// Runs a history with the model alongside. `which` selects the skip-decision clauses reported;
/// `filter` restricts the targets judged (C13: consumers only); `extra` adds per-invocation
/// oracles (C12).
pub fn eval_history(
    sc: &Scenario,
    root: &Path,
    stats: &mut Stats,
    which: Option<Which>,
    filter: fn(&Scenario, &Tid) -> bool,
    extra: Option<Extra>,
    nontrivial: fn(&Scenario, &InvCtx, bool) -> bool,
) -> Option<Violation> {
    let mut case = match materialize(sc, root) {
        Ok(c) => c,
        Err(e) => {
            stats.harness_errors.push(format!("materialize: {}", e));
            return None;
        }
    };
    let builds = build_targets(sc);
    let mut model = Model { records: builds.iter().map(|t| (t.clone(), Rec::None)).collect(), own_before_foreign: BTreeMap::new() };
    let mut idx = 0;
    let mut edits_since_last = 0usize;
    for st in &sc.steps {
        match st {
            Step::Fs(op) => {
                let mut clock = case.clock;
                simrt::vfs::apply_plain(&case.root.clone(), &case.vars_dir(), op, &mut clock);
                case.clock = clock;
                edits_since_last += 1;
            }
            Step::CorruptState { project, target, how } => {
                let t: Tid = (*project, target.clone());
                let sf = state_file(sc, &case, &t);
                let old_len = std::fs::metadata(&sf).map(|m| m.len() as usize).ok();
                let src_exists = match how {
                    Corrupt::Foreign { project: fp, target: ft } => state_file(sc, &case, &(*fp, ft.clone())).exists(),
                    _ => false,
                };
                apply_corruption(sc, &case, *project, target, how);
                let cur = model.records.get(&t).cloned().unwrap_or(Rec::None);
                let new = match how {
                    Corrupt::Remove | Corrupt::Empty | Corrupt::Garbage(_) => Rec::None,
                    // a strict prefix can never decode; a "truncation" beyond the end is a no-op
                    Corrupt::Truncate(n) => match old_len {
                        Some(l) if *n < l => Rec::None,
                        _ => cur,
                    },
                    // a flipped bit may or may not matter (an mtime of a file whose hash still
                    // matches): skipping stays acceptable only if the old record says "same"
                    Corrupt::FlipBit(_) => match (old_len, cur) {
                        (Some(l), Rec::Some(r)) | (Some(l), Rec::Maybe(r)) if l > 0 => Rec::Maybe(r),
                        (_, other) => other,
                    },
                    // another target's record decodes fine; zinoma cannot tell: a skip is
                    // acceptable only if that record equals this target's current state
                    Corrupt::Foreign { project: fp, target: ft } => {
                        if (*fp, ft.clone()) == t || !src_exists {
                            cur
                        } else {
                            if let Rec::Some(own) | Rec::Maybe(own) = &cur {
                                model.own_before_foreign.entry(t.clone()).or_insert_with(|| own.clone());
                            }
                            match model.records.get(&(*fp, ft.clone())) {
                                Some(Rec::Some(r)) | Some(Rec::Maybe(r)) => Rec::Maybe(r.clone()),
                                _ => Rec::None,
                            }
                        }
                    }
                };
                model.records.insert(t, new);
                edits_since_last += 1;
            }
            Step::Invoke(inv) => {
                let out_before: BTreeMap<Tid, ResState> = builds.iter().map(|t| (t.clone(), states(sc, &case, t).1)).collect();
                let before_tree = if extra.is_some() { snapshot_tree(&case.root) } else { BTreeMap::new() };
                let r = run_invocation(sc, &mut case, inv, &format!("s{}", idx));
                idx += 1;
                let c = InvCtx::new(sc, inv, &r);
                if stats.sample.is_none() && idx >= 2 {
                    stats.sample = Some(serde_json::json!({
                        "history": sc.steps.iter().map(|s| match s {
                            Step::Invoke(i) => format!("invoke -p {} {}", sc.projects[i.entry].dir, i.args.join(" ")),
                            Step::Fs(op) => format!("edit {}", serde_json::to_string(op).unwrap_or_default()),
                            Step::CorruptState { target, how, .. } => format!("corrupt-state {} {:?}", target, how),
                        }).collect::<Vec<_>>(),
                        "last_invocation": sample_of(sc, inv, &r),
                    }));
                }
                if let Some(h) = harness_error_of(&r) {
                    stats.absorb_run(inv, &r, false);
                    // configuration errors are not harness errors in histories that ask for them
                    if r.code == 1 && r.footer.is_none() {
                        stats.harness_errors.push(h);
                    }
                    return None;
                }
                let cleaning = inv.args.iter().any(|a| a == "--clean");
                let has_targets = !c.req.is_empty();
                // model effect of --clean before the run
                if cleaning {
                    // a clean that ended with an error (injected I/O error while deleting) may
                    // have removed only part of the recorded state: what survived is still a
                    // valid record
                    let partial = r.code != 0 && r.procs.iter().all(|p| p.kind == "cmd");
                    let cleaned = |old: Option<&Rec>| -> Rec {
                        match (partial, old) {
                            (true, Some(Rec::Some(x))) | (true, Some(Rec::Maybe(x))) => Rec::Maybe(x.clone()),
                            _ => Rec::None,
                        }
                    };
                    if has_targets {
                        for t in &c.clo {
                            if model.records.contains_key(t) {
                                let n = cleaned(model.records.get(t));
                                model.records.insert(t.clone(), n);
                            }
                        }
                    } else {
                        let loaded = gen::loaded_projects(sc, inv.entry);
                        for t in &builds {
                            if loaded.contains(&t.0) {
                                let n = cleaned(model.records.get(t));
                                model.records.insert(t.clone(), n);
                            }
                        }
                    }
                }
                // judge decisions
                let mut any_decision_with_record = false;
                let mut verdict = None;
                for t in &builds {
                    let disp = sc.display(t.0, &t.1);
                    let obs = Observed { skipped: !r.skips(&disp).is_empty(), started: !c.starts(t).is_empty() };
                    if !obs.skipped && !obs.started {
                        continue;
                    }
                    let rec = model.records.get(t).cloned().unwrap_or(Rec::None);
                    if !matches!(rec, Rec::None) {
                        any_decision_with_record = true;
                    }
                    if let Some(w) = which {
                        if filter(sc, t) && verdict.is_none() {
                            let (cur_in, _) = states(sc, &case, t);
                            let cur_out = if cleaning { ResState::default() } else { out_before.get(t).cloned().unwrap_or_default() };
                            // after --clean the outputs are gone before the decision; the
                            // record is None anyway, so the comparison is moot
                            let ctx = format!("invocation#{} argv=[{}] edits-before={}", idx, inv.args.join(" "), edits_since_last);
                            verdict = judge(sc, t, &rec, &cur_in, &cur_out, &obs, w, &ctx);
                            // zinoma's comparison ignores commands a (foreign) record holds beyond
                            // the declared ones; a skip under such a record is still right when the
                            // target's resources equal its OWN last recorded completion
                            if let (Some(v), Rec::Maybe(_), Some(own)) = (&verdict, &rec, model.own_before_foreign.get(t)) {
                                if v.oracle == "skipped-although-changed" && model::same_state(&own.input, &cur_in).0 && model::same_state(&own.output, &cur_out).0 {
                                    verdict = None;
                                }
                            }
                        }
                    }
                }
                stats.absorb_run(inv, &r, nontrivial(sc, &c, any_decision_with_record));
                if verdict.is_some() {
                    return verdict;
                }
                // property-specific oracle on the tree
                if let Some(f) = extra {
                    let after_tree = snapshot_tree(&case.root);
                    let o = InvObs { sc, case: &case, inv, r: &r, before_tree: &before_tree, after_tree: &after_tree, crashed: false };
                    if let Some(v) = f(&o, &model) {
                        return Some(v);
                    }
                }
                // update records
                let interrupted = r.seq_of("signal").is_some() || r.code != 0 || !r.main_returned();
                for t in &builds {
                    let insts = r.insts(&c.sim_id(t));
                    if let Some(last) = insts.last() {
                        let disp = sc.display(t.0, &t.1);
                        let ok = last.exit.as_ref().map(|e| e.1 == 0).unwrap_or(false);
                        let success_logged = r.logs().any(|e| e.rest == format!("INFO {} - Build success (took: _ms)", disp));
                        let save_failed = r.logs().any(|e| e.rest.starts_with(&format!("WARN {} - Failed to", disp)));
                        // "the state of its declared resources could be computed and stored": without
                        // an injected I/O error and with every command resource succeeding there is
                        // nothing that could prevent it - a warning that it was not stored is itself
                        // the violation (the next invocation will re-run an unchanged target)
                        if ok && success_logged && save_failed && model::has_inputs(sc, t) && matches!(which, Some(Which::Complete) | Some(Which::Both)) && filter(sc, t) {
                            let (i, o) = states(sc, &case, t);
                            let injected = inv.plan.faults.iter().any(|f| f.site.starts_with("fs.") || (f.site.starts_with("sys.") && !matches!(f.kind.as_str(), "short" | "eintr")));
                            if !injected && !i.cmd_failed && !o.cmd_failed && r.abnormal().is_none() {
                                let w = r.logs().find(|e| e.rest.starts_with(&format!("WARN {} - Failed to", disp))).map(|e| e.rest.clone()).unwrap_or_default();
                                return viol(
                                    "state-not-stored-without-cause",
                                    format!("target={} invocation#{}", disp, idx),
                                    format!("{} completed successfully and nothing prevents recording its state, yet zinoma reports: {}", disp, w.chars().take(200).collect::<String>()),
                                );
                            }
                        }
                        let new = if ok && success_logged && !save_failed && model::has_inputs(sc, t) {
                            let (i, o) = states(sc, &case, t);
                            if i.cmd_failed || o.cmd_failed {
                                Rec::None
                            } else if r.abnormal().is_some() || r.exit_kind() == "crash" {
                                Rec::Maybe(Record { input: i, output: o })
                            } else {
                                Rec::Some(Record { input: i, output: o })
                            }
                        } else if ok && !success_logged && interrupted {
                            Rec::None
                        } else {
                            Rec::None
                        };
                        model.records.insert(t.clone(), new);
                        model.own_before_foreign.remove(t);
                    }
                }
                edits_since_last = 0;
            }
        }
    }
    None
}

// ------------------------------------------------------------------ edit generation

/// Declared files a history may edit: (path relative to case root, is_output_of_some_target).
fn editable_files(sc: &Scenario) -> Vec<(String, bool)> {
    let mut v = vec![];
    for f in &sc.files {
        if let FileKind::File(_) = f.kind {
            // files under a planted `.zinoma` are edited too: such edits are irrelevant and
            // must not cause a rebuild
            v.push((f.path.clone(), false));
        }
    }
    for p in &sc.projects {
        for t in &p.targets {
            for w in &t.writes {
                v.push((format!("{}/{}", p.dir, w), true));
            }
        }
    }
    v
}

pub fn gen_edit(rng: &mut Rng, sc: &Scenario, n: u64) -> Option<Step> {
    let files = editable_files(sc);
    let var_keys: Vec<String> = sc.vars.keys().cloned().collect();
    let pick_var = !var_keys.is_empty() && rng.chance(15);
    if pick_var {
        let k = rng.pick(&var_keys).clone();
        // commands print bytes, not text: some values differ from each other only in a byte that
        // is not valid UTF-8
        let value = match rng.weighted(&[10, 50, 15, 25]) {
            0 => "!fail".to_string(),
            // the same visible text with different trailing white space each time
            3 => format!("{} steady{}", k.rsplit("__").next().unwrap_or(""), rng.pick(&["", "\n", "\n\n", " \n", "\t", " "])),
            2 => format!("blob \\x{:02x} end\n", 0x80 + rng.below(0x7f)),
            _ => format!("{} {}\n", k, n),
        };
        return Some(Step::Fs(FsOp::SetVar { key: k, value }));
    }
    if files.is_empty() {
        return None;
    }
    // files that declared directories only reach through a link get a second ticket
    let mut files = files;
    let linked: Vec<(String, bool)> = files.iter().filter(|f| f.0.contains("/shared/")).cloned().collect();
    files.extend(linked);
    let (path, _is_out) = rng.pick(&files).clone();
    let op = match rng.weighted(&[30, 8, 12, 10, 10, 10, 10, 10, 8]) {
        8 => FsOp::WriteOlder { path, content: format!("older revision #{}\n", n) },
        0 => FsOp::Write { path, content: format!("edited #{}\n", n) },
        1 => FsOp::Append { path, content: format!("+{}", n) },
        2 => FsOp::Touch { path },
        3 => FsOp::WriteKeepMtime { path, content: format!("stealth #{}\n", n) },
        4 => FsOp::Delete { path },
        5 => {
            // create a sibling file (may or may not match extension filters)
            let dir = path.rsplit_once('/').map(|x| x.0.to_string()).unwrap_or_default();
            let name = rng.pick(&["new.c", "new.txt", "x.o", "zz.h", ".hidden.c"]);
            FsOp::Create { path: format!("{}/{}{}", dir, n, name), content: format!("created #{}\n", n) }
        }
        6 => {
            let dir = path.rsplit_once('/').map(|x| x.0.to_string()).unwrap_or_default();
            let ext = path.rsplit_once('.').map(|x| x.1.to_string()).unwrap_or_default();
            FsOp::Rename { from: path.clone(), to: format!("{}/renamed{}.{}", dir, n, ext) }
        }
        _ => {
            // same-length rewrite beyond the first read buffer of a big file, or plain rewrite
            FsOp::Write { path, content: format!("rewritten #{}\n", n) }
        }
    };
    Some(Step::Fs(op))
}

/// For files larger than 1 KiB: change one byte after offset 1024, same length.
pub fn gen_tail_edit(rng: &mut Rng, sc: &Scenario) -> Option<Step> {
    let bigs: Vec<&FileSpec> = sc.files.iter().filter(|f| matches!(&f.kind, FileKind::File(c) if c.len() > 1100)).collect();
    if bigs.is_empty() {
        return None;
    }
    let f = rng.pick(&bigs);
    if let FileKind::File(c) = &f.kind {
        let mut b = c.clone().into_bytes();
        let i = rng.range(1030, b.len() - 1);
        b[i] = if b[i] == b'#' { b'%' } else { b'#' };
        return Some(Step::Fs(FsOp::Write { path: f.path.clone(), content: String::from_utf8_lossy(&b).into_owned() }));
    }
    None
}

pub fn plain_invocation(rng: &mut Rng, sc: &Scenario, entry: usize, args: Vec<String>) -> Invocation {
    let n: usize = sc.projects.iter().map(|p| p.targets.len()).sum();
    let mut plan = gen::gen_plan(rng, 80 + 60 * n as u64);
    let req = model::requested(sc, entry, &args);
    if req.iter().any(|t| model::is_service_root(sc, t)) {
        plan.events.push(gen::signal_at_idle());
    }
    Invocation { entry, args, hash_seed: rng.below(1 << 30) as u64 + 1, plan, side: 0 }
}

pub struct HistOpts {
    pub io: IoOpts,
    pub max_invocations: usize,
    pub edit_pct: usize,
    pub touch_only: bool,
    pub vary_entry: bool,
    pub clean_pct: usize,
    pub fail_pct: usize,
    pub corrupt_pct: usize,
    pub io_fault_pct: usize,
    /// share of invocations with one fault at a system call of zinoma's own blocking-pool
    /// closures (`sys.write`, `sys.open-for-write`: where records are stored); `true` = only the
    /// kinds that are no errors (a short write, EINTR), after which everything must be as usual
    pub sys_fault: (usize, bool),
    /// one plain rewrite in this many becomes a rewrite dated before 1970 (0 = never): the state
    /// of such a file cannot be computed, so nothing is recorded - only for checks that judge
    /// skips, not rebuilds
    pub ancient_every: u64,
}

pub fn gen_history(rng: &mut Rng, o: &HistOpts) -> Scenario {
    let mut sc = gen::gen_io(rng, &o.io);
    let ninv = rng.range(2, o.max_invocations.max(2));
    let mut counter = 0u64;
    for k in 0..ninv {
        let entry = if o.vary_entry && sc.projects.len() > 1 && rng.chance(35) { rng.below(sc.projects.len()) } else { 0 };
        let mut args = gen::gen_request_io(rng, &sc, entry);
        if args.is_empty() {
            continue;
        }
        if k == 0 && rng.chance(70) && entry == 0 {
            // first invocation: usually build everything reachable by name from the root
            let mut all = vec![];
            for &pi in &gen::loaded_projects(&sc, 0) {
                for t in &sc.projects[pi].targets {
                    if t.kind == Kind::Service {
                        continue;
                    }
                    all.push(if pi == 0 { t.name.clone() } else { format!("{}::{}", sc.projects[pi].name.clone().unwrap(), t.name) });
                }
            }
            if !all.is_empty() {
                args = all;
            }
        }
        if k > 0 && rng.chance(o.clean_pct) {
            args.insert(0, "--clean".into());
        }
        let mut inv = plain_invocation(rng, &sc, entry, args);
        if rng.chance(o.fail_pct) {
            let req = model::requested(&sc, entry, &inv.args);
            let clo: Vec<Tid> = model::closure(&sc, &req).into_iter().filter(|t| model::kind_of(&sc, t) == Some(Kind::Build)).collect();
            if !clo.is_empty() {
                let t = rng.pick(&clo);
                let kind = if rng.chance(40) { "sig=9" } else { "exit=1" };
                inv.plan.faults.push(Fault { site: format!("proc.exit:{}", sc.sim_id(t.0, &t.1)), occurrence: 1, kind: kind.into() });
            }
        }
        if rng.chance(o.io_fault_pct) {
            // an I/O error on one of zinoma's own file-system calls (never on the scripts')
            let site = *rng.pick(&["fs.metadata", "fs.metadata", "fs.open", "fs.file-read", "fs.remove_file", "fs.create_dir"]);
            let kind = if site == "fs.file-read" && rng.chance(50) { "short" } else { "eio" };
            inv.plan.faults.push(Fault { site: site.into(), occurrence: rng.range(1, 12) as u32, kind: kind.into() });
        }
        if o.sys_fault.0 > 0 {
            // drawn from a generator of its own (seeded by this invocation's hash seed) so that
            // the histories generated for a given VERIF_SEED stay what they were
            let mut r2 = Rng::new(inv.hash_seed.wrapping_mul(0x9E37_79B9_7F4A_7C15) ^ 0x5157);
            if r2.chance(o.sys_fault.0) {
                let benign = o.sys_fault.1;
                let (site, kinds): (&str, &[&str]) = if r2.chance(75) {
                    ("sys.write", if benign { &["short", "eintr", "short"] } else { &["short", "eintr", "enospc", "eio", "enospc"] })
                } else {
                    ("sys.open-for-write", if benign { &["eintr"] } else { &["eintr", "eacces", "enospc"] })
                };
                let occ = if site == "sys.write" { r2.range(1, 45) } else { r2.range(1, 4) } as u32;
                inv.plan.faults.push(Fault { site: site.into(), occurrence: occ, kind: (*r2.pick(kinds)).into() });
            }
        }
        sc.steps.push(Step::Invoke(inv));
        if k + 1 < ninv {
            let ne = if rng.chance(o.edit_pct) { rng.weighted(&[0, 50, 30, 15, 5]) } else { 0 };
            for _ in 0..ne {
                counter += 1;
                let e = if o.touch_only {
                    let files = editable_files(&sc);
                    let planted: Vec<&(String, bool)> = files.iter().filter(|f| f.0.contains("/.zinoma/")).collect();
                    if files.is_empty() {
                        None
                    } else if !planted.is_empty() && rng.chance(35) {
                        // a file inside a (nested) work directory is not a declared resource:
                        // rewriting it leaves the tree "untouched" as far as any target goes
                        Some(Step::Fs(FsOp::Write { path: rng.pick(&planted).0.clone(), content: format!("irrelevant rewrite #{}\n", counter) }))
                    } else {
                        Some(Step::Fs(FsOp::Touch { path: rng.pick(&files).0.clone() }))
                    }
                } else if rng.chance(12) {
                    gen_tail_edit(rng, &sc).or_else(|| gen_edit(rng, &sc, counter))
                } else {
                    gen_edit(rng, &sc, counter)
                };
                if let Some(e) = e {
                    let e = match e {
                        Step::Fs(FsOp::Write { path, content }) if o.ancient_every > 0 && simrt::stamp::fnv(simrt::stamp::FNV_INIT, path.as_bytes()) % o.ancient_every == 0 => Step::Fs(FsOp::WriteAncient { path, content }),
                        other => other,
                    };
                    sc.steps.push(e);
                }
            }
            if rng.chance(o.corrupt_pct) {
                let b = build_targets(&sc);
                if !b.is_empty() {
                    let t = rng.pick(&b).clone();
                    let how = match rng.below(6) {
                        0 => Corrupt::Truncate(rng.below(64)),
                        1 => Corrupt::FlipBit(rng.below(8 * 200)),
                        2 => Corrupt::Garbage(rng.next()),
                        3 => Corrupt::Empty,
                        4 => Corrupt::Remove,
                        _ => {
                            let o2 = rng.pick(&b).clone();
                            Corrupt::Foreign { project: o2.0, target: o2.1 }
                        }
                    };
                    sc.steps.push(Step::CorruptState { project: t.0, target: t.1, how });
                }
            }
        }
    }
    sc
}

fn any_target(_sc: &Scenario, _t: &Tid) -> bool {
    true
}

fn consumer_only(sc: &Scenario, t: &Tid) -> bool {
    sc.target(t.0, &t.1).map(|x| x.deps.iter().any(|d| d.via_output)).unwrap_or(false)
}

fn nontrivial_decision(_sc: &Scenario, _c: &InvCtx, had_record: bool) -> bool {
    had_record
}

fn harness_or(stats: &mut Stats, v: Option<Violation>) -> Option<Violation> {
    let _ = stats;
    v
}

pub fn all() -> Vec<Box<dyn Property>> {
    vec![Box::new(C02), Box::new(C03), Box::new(C13), Box::new(C18), Box::new(C12)]
}

// ------------------------------------------------------------------ C02

pub struct C02;
impl Property for C02 {
    fn id(&self) -> &'static str {
        "C02"
    }
    fn cases(&self, tier: &str) -> u64 {
        if tier == "quick" {
            2_500
        } else {
            60_000
        }
    }
    fn rule(&self) -> &'static str {
        "one case = 1-3 generated projects with varied resource declarations (files, nested directories, extension filters, >1 KiB files, command resources, outputs as files / filtered directories / commands, X.output chains across projects) and a history of 2-5 invocations separated by 0-4 edits (rewrite, append, touch, rewrite keeping the mtime, delete, create sibling, rename, same-length change beyond byte 1024, output edited, command output changed - including outputs that are not valid UTF-8, that differ only in trailing white space, or that exceed a pipe buffer) and occasional state-file corruption; declared directories may hold links to files kept elsewhere, upper-case extension filters, sibling paths with a common textual prefix, an output written inside the target's own input directory; the project directory is spelled differently (`dir`, `dir/.`, `dir/../dir`) from one invocation to the next; each invocation under its own seeded schedule. Oracle: every observed skip must be justified by the model's record (taken at the target's last successful completion) and the model's comparison with the state at decision time. Also injected (a tenth of the invocations): one outcome of a system call made by zinoma while it stores a record - write(2) failing with ENOSPC / EIO, accepting half its buffer, interrupted (EINTR), open failing with EACCES / ENOSPC; files of one path in four carry dates before 1970 for the whole history. distinct_nontrivial = distinct order hashes among invocations in which a target with a model record was evaluated"
    }
    fn assumptions(&self) -> Vec<&'static str> {
        vec!["mtimes of workload and script writes come from the simulator's logical clock (one tick per write)", "race-free layouts: a file is written by at most one target"]
    }
    fn generate(&self, rng: &mut Rng, _case: u64) -> Scenario {
        gen_history(rng, &HistOpts { io: IoOpts { own_output_inside_input_pct: 12, cmd_output_pct: 30, multi_project_pct: 55, cmd_pct: 35, ..IoOpts::default() }, max_invocations: 5, edit_pct: 85, touch_only: false, vary_entry: false, clean_pct: 5, fail_pct: 8, corrupt_pct: 8, io_fault_pct: 12, sys_fault: (10, false), ancient_every: 4 })
    }
    fn evaluate(&self, sc: &Scenario, root: &Path, stats: &mut Stats) -> Option<Violation> {
        let v = eval_history(sc, root, stats, Some(Which::Sound), any_target, None, nontrivial_decision);
        harness_or(stats, v)
    }
}

// ------------------------------------------------------------------ C03

pub struct C03;
impl Property for C03 {
    fn id(&self) -> &'static str {
        "C03"
    }
    fn cases(&self, tier: &str) -> u64 {
        if tier == "quick" {
            2_500
        } else {
            60_000
        }
    }
    fn rule(&self) -> &'static str {
        "one case = 1-3 generated projects (shared resources, identical command text and identical relative paths in different project directories, X.output across projects) and a history of 2-5 invocations over an untouched tree (different requested sets and spellings; the only edits are touch-only, content identical). Oracle: a target that declares inputs, has a definite model record and whose declared resources are content-equal to that record must not have its script started; a target without inputs must never be skipped. An eighth of the invocations meet a short or interrupted write(2) / interrupted open while a record is stored (no errors: the record must be complete all the same); a build may empty its output directory, which lies among its inputs, of leftovers; imports and the -p argument may lead through symbolic links. distinct_nontrivial = distinct order hashes among invocations in which a target with a model record was evaluated"
    }
    fn generate(&self, rng: &mut Rng, _case: u64) -> Scenario {
        let mut sc = gen_history(rng, &HistOpts { io: IoOpts { multi_project_pct: 60, max_targets: 6, cmd_pct: 35, cmd_output_pct: 0, own_output_inside_input_pct: 12, long_name_len: 0 }, max_invocations: 4, edit_pct: 40, touch_only: true, vary_entry: false, clean_pct: 0, fail_pct: 18, corrupt_pct: 0, io_fault_pct: 0, sys_fault: (12, true), ancient_every: 0 });
        sc.import_through_links();
        sc
    }
    fn evaluate(&self, sc: &Scenario, root: &Path, stats: &mut Stats) -> Option<Violation> {
        eval_history(sc, root, stats, Some(Which::Complete), any_target, None, nontrivial_decision)
    }
}

// ------------------------------------------------------------------ C13

pub struct C13;
impl Property for C13 {
    fn id(&self) -> &'static str {
        "C13"
    }
    fn cases(&self, tier: &str) -> u64 {
        if tier == "quick" {
            2_500
        } else {
            60_000
        }
    }
    fn rule(&self) -> &'static str {
        "one case = producer/consumer layout over 1-3 projects (chains, several producers, producers in imported projects at other directories, identical relative paths and command texts in different projects) + history of invocations and edits biased to the producers' outputs and sources. Oracle (both directions, consumers of X.output only): the consumer's decision equals the model's decision with the producer's output resources - files with their extension filter, commands evaluated in the producer's directory - appended to its inputs. Producer-first ordering is C01's oracle. Short and interrupted writes while records are stored (6 % of the invocations). distinct_nontrivial = distinct order hashes among invocations where a consumer with a model record was evaluated"
    }
    fn generate(&self, rng: &mut Rng, case_no: u64) -> Scenario {
        if case_no % 10 == 3 {
            return gen_shared_command_layout(rng);
        }
        if rng.chance(20) {
            // the same relation in watch mode: a producer rebuilt (also while its consumer is
            // building) must end with the consumer built from the producer's final outputs
            return super::watch::gen_watch(rng, &super::watch::WatchOpts { inside_build_pct: 60, io_only: true, ..Default::default() });
        }
        gen_history(rng, &HistOpts { io: IoOpts { multi_project_pct: 70, max_targets: 6, cmd_pct: 35, cmd_output_pct: 35, own_output_inside_input_pct: 0, long_name_len: 0 }, max_invocations: 4, edit_pct: 70, touch_only: false, vary_entry: false, clean_pct: 0, fail_pct: 0, corrupt_pct: 0, io_fault_pct: 0, sys_fault: (6, true), ancient_every: 0 })
    }
    fn evaluate(&self, sc: &Scenario, root: &Path, stats: &mut Stats) -> Option<Violation> {
        if sc.label.starts_with("watch-") {
            let s = super::watch::run_session(sc, root, stats, |c| c.clo.iter().any(|t| c.sc.target(t.0, &t.1).map(|x| x.deps.iter().any(|d| d.via_output)).unwrap_or(false)))?;
            return super::watch::oracle_c06_filtered(sc, &s, consumer_only).map(|v| Violation { oracle: format!("watch:{}", v.oracle), witness: v.witness, message: v.message });
        }
        eval_history(sc, root, stats, Some(Which::Both), consumer_only, None, |sc, c, had| had && c.clo.iter().any(|t| consumer_only(sc, t)))
    }
}

// ------------------------------------------------------------------ C18

pub struct C18;
impl Property for C18 {
    fn id(&self) -> &'static str {
        "C18"
    }
    fn cases(&self, tier: &str) -> u64 {
        if tier == "quick" {
            2_500
        } else {
            60_000
        }
    }
    fn rule(&self) -> &'static str {
        "one case = 2-3 projects + a history of 2-5 invocations with different requested targets, different entry projects (-p the root or an imported project's own directory), --clean T for some targets, failing other targets, interleaved with edits. Oracle (both directions): each target's decision equals the model's decision computed from that target's own declared resources and its own last successful completion only. Short and interrupted writes while records are stored (a tenth of the invocations); imports and the -p argument may lead through symbolic links. distinct_nontrivial = distinct order hashes among invocations where a target with a model record was evaluated"
    }
    fn generate(&self, rng: &mut Rng, _case: u64) -> Scenario {
        let mut sc = gen_history(rng, &HistOpts { io: IoOpts { multi_project_pct: 85, max_targets: 6, cmd_pct: 20, cmd_output_pct: 0, own_output_inside_input_pct: 12, long_name_len: 0 }, max_invocations: 5, edit_pct: 50, touch_only: false, vary_entry: true, clean_pct: 20, fail_pct: 20, corrupt_pct: 10, io_fault_pct: 0, sys_fault: (10, true), ancient_every: 0 });
        sc.import_through_links();
        sc
    }
    fn evaluate(&self, sc: &Scenario, root: &Path, stats: &mut Stats) -> Option<Violation> {
        eval_history(sc, root, stats, Some(Which::Both), any_target, None, nontrivial_decision)
    }
}

// ------------------------------------------------------------------ C12

/// Paths (relative to the case root) that `--clean` must delete according to the statement, and
/// the `.zinoma` regions in its scope.
fn deletion_set(o: &InvObs) -> (BTreeSet<PathBuf>, Vec<PathBuf>, BTreeSet<PathBuf>) {
    let sc = o.sc;
    let req = model::requested(sc, o.inv.entry, &o.inv.args);
    let mut del: BTreeSet<PathBuf> = BTreeSet::new();
    let mut del_dirs: Vec<PathBuf> = vec![];
    let mut state: BTreeSet<PathBuf> = BTreeSet::new();
    if !o.inv.args.iter().any(|a| a == "--clean") {
        return (del, del_dirs, state);
    }
    let scope: Vec<Tid> = if req.is_empty() {
        let loaded = gen::loaded_projects(sc, o.inv.entry);
        for &pi in &loaded {
            state.insert(PathBuf::from(&sc.projects[pi].dir).join(".zinoma"));
        }
        sc.all_targets().into_iter().filter(|t| loaded.contains(&t.0)).collect()
    } else {
        let clo = model::closure(sc, &req);
        for t in &clo {
            state.insert(PathBuf::from(&sc.projects[t.0].dir).join(".zinoma").join(format!("{}.checksums", sc.display(t.0, &t.1))));
        }
        clo.into_iter().collect()
    };
    let root = &o.case.root;
    for t in &scope {
        let tt = match sc.target(t.0, &t.1) {
            Some(x) if x.kind == Kind::Build => x,
            _ => continue,
        };
        let pdir = root.join(&sc.projects[t.0].dir);
        for r in &tt.output {
            if let Res::Paths { paths, extensions } = r {
                let filtered = extensions.as_ref().map(|e| e.iter().any(|x| !x.is_empty())).unwrap_or(false);
                if filtered {
                    // only the matching files beneath; computed on the tree as it was before
                    for (rel, e) in o.before_tree.iter() {
                        let abs = root.join(rel);
                        let is_file = matches!(e, Entry::File(..)) || matches!(e, Entry::Symlink(_) if std::fs::metadata(&abs).map(|m| m.is_file()).unwrap_or(false) || o.after_tree.get(rel).is_none());
                        let _ = is_file;
                    }
                    let one = [Res::Paths { paths: paths.clone(), extensions: extensions.clone() }];
                    // denote() on the *current* tree would miss what was deleted: use `before`
                    for f in denote_in_snapshot(&one, &pdir, root, o.before_tree) {
                        del.insert(f);
                    }
                } else {
                    for p in paths {
                        let rel = PathBuf::from(&sc.projects[t.0].dir).join(p);
                        match o.before_tree.get(&rel) {
                            Some(Entry::File(..)) => {
                                del.insert(rel);
                            }
                            Some(Entry::Dir) => {
                                del_dirs.push(rel.clone());
                                del.insert(rel);
                            }
                            // the path itself is a link: the link goes (if it points at something),
                            // what it points to stays
                            // (dangling or not: it is the declared output path)
                            Some(Entry::Symlink(_)) => {
                                del.insert(rel);
                            }
                            _ => {}
                        }
                    }
                }
            }
        }
    }
    (del, del_dirs, state)
}

/// `model::denote` evaluated on a snapshot instead of the live tree.
fn denote_in_snapshot(res: &[Res], pdir: &Path, root: &Path, snap: &BTreeMap<PathBuf, Entry>) -> Vec<PathBuf> {
    let mut out = vec![];
    for r in res {
        if let Res::Paths { paths, extensions } = r {
            let exts: Vec<String> = extensions.as_ref().map(|e| e.iter().filter(|x| !x.is_empty()).map(|x| if x.starts_with('.') { x.clone() } else { format!(".{}", x) }).collect()).unwrap_or_default();
            for p in paths {
                let base = pdir.join(p);
                let base_rel = match base.strip_prefix(root) {
                    Ok(b) => b.to_path_buf(),
                    Err(_) => continue,
                };
                for (rel, e) in snap.iter() {
                    if !(rel == &base_rel || rel.starts_with(&base_rel)) {
                        continue;
                    }
                    // pruned: anything below a directory named .zinoma; below a symlinked directory
                    let below = rel.strip_prefix(&base_rel).unwrap();
                    if below.components().any(|c| c.as_os_str() == ".zinoma") {
                        continue;
                    }
                    let mut through_link = false;
                    let mut acc = base_rel.clone();
                    let comps: Vec<_> = below.components().collect();
                    for c in comps.iter().take(comps.len().saturating_sub(1)) {
                        acc.push(c);
                        if matches!(snap.get(&acc), Some(Entry::Symlink(_))) {
                            through_link = true;
                        }
                    }
                    if through_link {
                        continue;
                    }
                    let is_file = match e {
                        Entry::File(..) => true,
                        Entry::Symlink(t) => {
                            // a link to a regular file counts as a file (the link is what gets removed)
                            let target = root.join(rel).parent().map(|d| d.join(t)).unwrap_or_default();
                            let trel = normalise(&target).strip_prefix(root).map(|x| x.to_path_buf()).ok();
                            match trel {
                                Some(tr) => matches!(snap.get(&tr), Some(Entry::File(..))),
                                None => std::fs::metadata(&target).map(|m| m.is_file()).unwrap_or(false),
                            }
                        }
                        _ => false,
                    };
                    if !is_file {
                        continue;
                    }
                    if !exts.is_empty() {
                        let name = rel.file_name().map(|n| n.to_string_lossy().into_owned()).unwrap_or_default();
                        if !exts.iter().any(|x| name.ends_with(x.as_str())) {
                            continue;
                        }
                    }
                    out.push(rel.clone());
                }
            }
        }
    }
    out
}

fn normalise(p: &Path) -> PathBuf {
    let mut out = PathBuf::new();
    for c in p.components() {
        match c {
            std::path::Component::ParentDir => {
                out.pop();
            }
            std::path::Component::CurDir => {}
            other => out.push(other),
        }
    }
    out
}

fn clean_oracle(o: &InvObs, _m: &Model) -> Option<Violation> {
    if o.r.abnormal().is_some() && !o.crashed {
        return None;
    }
    let (del, del_dirs, state) = deletion_set(o);
    let cleaning = o.inv.args.iter().any(|a| a == "--clean");
    // files written by scripts in this invocation (and their parent directories)
    let mut written: BTreeSet<PathBuf> = BTreeSet::new();
    for p in &o.r.procs {
        if let (Some((_, _, wrote)), Some(t)) = (&p.exit, super::oneshot::tid_of_sim_id(o.sc, &p.id)) {
            for w in wrote {
                let rel = PathBuf::from(&o.sc.projects[t.0].dir).join(w);
                let mut anc = rel.parent();
                while let Some(a) = anc {
                    if a.as_os_str().is_empty() {
                        break;
                    }
                    written.insert(a.to_path_buf());
                    anc = a.parent();
                }
                written.insert(rel);
            }
        }
    }
    let in_zinoma = |rel: &Path| rel.components().any(|c| c.as_os_str() == ".zinoma") && !rel.components().take_while(|c| c.as_os_str() != ".zinoma").any(|c| c.as_os_str() == "src" || c.as_os_str() == "out");
    let mut all: BTreeSet<&PathBuf> = o.before_tree.keys().collect();
    all.extend(o.after_tree.keys());
    for rel in all {
        let b = o.before_tree.get(rel);
        let a = o.after_tree.get(rel);
        if in_zinoma(rel) {
            // recorded state: must be gone (or rewritten) when in the cleaned scope
            if cleaning {
                let in_scope = state.iter().any(|s| rel == s || rel.starts_with(s));
                if !o.crashed && in_scope && b.is_some() && a == b && matches!(b, Some(Entry::File(..))) {
                    return viol("state-survived-clean", format!("path={}", rel.display()), format!("--clean left the recorded state {} in place", rel.display()));
                }
                if !in_scope && b.is_some() && a.is_none() {
                    return viol("state-outside-scope-deleted", format!("path={}", rel.display()), format!("--clean removed {} which belongs to a target outside the cleaned scope", rel.display()));
                }
            }
            continue;
        }
        if written.contains(rel) {
            continue;
        }
        let under_removed_dir = del_dirs.iter().any(|d| rel.starts_with(d));
        let expected_absent = del.contains(rel) || under_removed_dir;
        match (b, a, expected_absent) {
            (Some(_), Some(_), true) if !o.crashed => {
                return viol("declared-output-not-deleted", format!("path={}", rel.display()), format!("--clean must delete {} (declared output) but it is still there", rel.display()));
            }
            (Some(x), None, false) => {
                let what = match x {
                    Entry::Symlink(_) => "symlink",
                    Entry::Dir => "directory",
                    _ => "file",
                };
                return viol("deleted-outside-declared-outputs", format!("kind={} path={}", what, rel.display()), format!("{} {} is neither a declared output (or a matching file beneath one) nor recorded state, but it disappeared", what, rel.display()));
            }
            (Some(x), Some(y), false) if x != y => {
                return viol("modified-outside-script-effects", format!("path={}", rel.display()), format!("{} changed although no script that ran writes it", rel.display()));
            }
            (None, Some(_), _) => {
                return viol("unexpected-new-entry", format!("path={}", rel.display()), format!("{} appeared although no script that ran writes it", rel.display()));
            }
            _ => {}
        }
    }
    None
}

pub struct C12;
impl Property for C12 {
    fn id(&self) -> &'static str {
        "C12"
    }
    fn cases(&self, tier: &str) -> u64 {
        if tier == "quick" {
            2_000
        } else {
            50_000
        }
    }
    fn rule(&self) -> &'static str {
        "one case = 1-3 projects whose output directories are decorated with files not matching the extension filter, nested directories and symbolic links (to files, to directories, dangling, pointing outside the output) + a history of invocations containing `--clean` alone, `--clean T...` and plain runs, with edits in between. Oracle after every invocation: recursive tree snapshot (names, types, link targets, contents, mtimes) after vs before equals the model's deletion set (declared output paths, or only the matching files beneath them; recorded state of the cleaned scope) plus the effects of the scripts that ran; targets in the cleaned scope are never skipped. In a third of the cases zinoma is additionally killed at 12 evenly spaced decision indices inside the last --clean invocation: whatever was deleted so far must lie inside the deletion set and nothing else may differ. Declarations also include `[]` / `['']` filters, overlapping or repeated paths under one filter, one directory declared twice with different filters, declared output paths that are symbolic links to files or directories kept elsewhere (with and without a filter: the link may go, never what it points to), long target names with a common prefix. Declared output paths may also be spelled through a link (`link/`, `link/.`, `link/inner.txt`: nothing behind the link may go); 15 % of the invocations have a failing or killed build (what `--clean T` has to delete is deleted all the same). distinct_nontrivial = distinct order hashes among --clean invocations, completed or killed"
    }
    fn assumptions(&self) -> Vec<&'static str> {
        vec!["a declared output path that is itself a symbolic link: cleaning removes the link only (what std's remove_file / remove_dir_all do with a link)"]
    }
    fn generate(&self, rng: &mut Rng, _case: u64) -> Scenario {
        let mut sc = gen_history(rng, &HistOpts { io: IoOpts { multi_project_pct: 50, max_targets: 5, cmd_pct: 10, cmd_output_pct: 0, own_output_inside_input_pct: 0, long_name_len: 0 }, max_invocations: 4, edit_pct: 30, touch_only: false, vary_entry: false, clean_pct: 70, fail_pct: 15, corrupt_pct: 0, io_fault_pct: 0, sys_fault: (0, false), ancient_every: 0 });
        // decorate output locations
        let mut extra = vec![];
        for p in &sc.projects {
            for t in &p.targets {
                for r in &t.output {
                    if let Res::Paths { paths, .. } = r {
                        for path in paths {
                            if path.ends_with(".out") {
                                continue;
                            }
                            let d = format!("{}/{}", p.dir, path);
                            if rng.chance(60) {
                                extra.push(FileSpec { path: format!("{}/keep.txt", d), kind: FileKind::File("not an object file\n".into()) });
                            }
                            if rng.chance(50) {
                                extra.push(FileSpec { path: format!("{}/old.o", d), kind: FileKind::File("stale object\n".into()) });
                            }
                            if rng.chance(40) {
                                extra.push(FileSpec { path: format!("{}/nested/deeper/z.o", d), kind: FileKind::File("nested object\n".into()) });
                            }
                            if rng.chance(40) {
                                // link to a file outside the output; its name may match the filter
                                extra.push(FileSpec { path: format!("{}/outside.o", d), kind: FileKind::Symlink("../../precious.txt".into()) });
                            }
                            if rng.chance(35) {
                                extra.push(FileSpec { path: format!("{}/dirlink", d), kind: FileKind::Symlink("../../precious_dir".into()) });
                            }
                            if rng.chance(25) {
                                extra.push(FileSpec { path: format!("{}/dangling.o", d), kind: FileKind::Symlink("nowhere".into()) });
                            }
                        }
                    }
                }
            }
            extra.push(FileSpec { path: format!("{}/precious.txt", p.dir), kind: FileKind::File("must survive\n".into()) });
            extra.push(FileSpec { path: format!("{}/precious_dir/inner.o", p.dir), kind: FileKind::File("must survive too\n".into()) });
        }
        sc.files.extend(extra);
        // unusual but valid declarations of output directories: an explicitly empty (or all-blank)
        // extension list means "no filter" (the whole path goes); one resource may list
        // overlapping paths, or the same path twice, under a filter (each file goes once)
        for p in sc.projects.iter_mut() {
            for t in p.targets.iter_mut() {
                for r in t.output.iter_mut() {
                    if let Res::Paths { paths, extensions } = r {
                        if paths.len() != 1 || paths[0].ends_with(".out") {
                            continue;
                        }
                        match extensions {
                            None => {
                                if rng.chance(40) {
                                    *extensions = Some(if rng.chance(50) { vec![] } else { vec!["".to_string()] });
                                }
                            }
                            Some(e) if e.iter().any(|x| !x.is_empty()) => {
                                if rng.chance(35) {
                                    let d = paths[0].clone();
                                    if rng.chance(60) {
                                        paths.push(format!("{}/nested", d));
                                    } else {
                                        paths.push(d);
                                    }
                                }
                            }
                            _ => {}
                        }
                    }
                }
            }
        }
        // the same output directory declared twice with different filters: both sets go
        for p in sc.projects.iter_mut() {
            for t in p.targets.iter_mut() {
                let mut extra_res = vec![];
                for r in t.output.iter() {
                    if let Res::Paths { paths, extensions: Some(e) } = r {
                        if e.iter().any(|x| x == "o") && rng.chance(30) {
                            let mut p2 = vec![paths[0].clone()];
                            if rng.chance(40) {
                                p2.push(format!("{}-more", paths[0]));
                            }
                            extra_res.push(Res::Paths { paths: p2, extensions: Some(vec!["txt".to_string()]) });
                        }
                    }
                }
                t.output.extend(extra_res);
            }
        }
        // an output resource listing several paths, one of which never exists
        for p in sc.projects.iter_mut() {
            for t in p.targets.iter_mut() {
                if t.kind == Kind::Build && t.writes.len() == 1 && t.writes[0].ends_with(".out") && rng.chance(40) {
                    let base = t.writes[0].trim_end_matches(".out").to_string();
                    let second = format!("{}.map", base);
                    t.output = vec![Res::Paths { paths: vec![format!("{}.missing", base), t.writes[0].clone(), format!("{}.never", base), second.clone()], extensions: None }];
                    t.writes.push(second);
                }
            }
        }
        // a declared output path that is itself a symbolic link (to a file or to a directory kept
        // elsewhere): cleaning removes the link, never what it points to
        let mut link_files = vec![];
        for p in sc.projects.iter_mut() {
            for t in p.targets.iter_mut() {
                if t.kind == Kind::Build && !t.writes.is_empty() && t.writes[0].ends_with(".out") && rng.chance(20) {
                    let base = t.writes[0].trim_end_matches(".out").to_string();
                    let link = format!("{}.latest", base);
                    let name = base.rsplit('/').next().unwrap_or("x").to_string();
                    let mut link_ext = None;
                    if rng.chance(50) {
                        link_files.push(FileSpec { path: format!("{}/store/{}-latest.txt", p.dir, name), kind: FileKind::File("kept elsewhere\n".into()) });
                        link_files.push(FileSpec { path: format!("{}/{}", p.dir, link), kind: FileKind::Symlink(format!("../store/{}-latest.txt", name)) });
                    } else {
                        // half of the directory links are declared with a filter that matches what
                        // lies behind the link: still nothing behind it may go
                        if rng.chance(50) {
                            link_ext = Some(vec!["txt".to_string()]);
                        }
                        link_files.push(FileSpec { path: format!("{}/store/{}-latest/inner.txt", p.dir, name), kind: FileKind::File("kept elsewhere, in a directory\n".into()) });
                        link_files.push(FileSpec { path: format!("{}/{}", p.dir, link), kind: FileKind::Symlink(format!("../store/{}-latest", name)) });
                    }
                    // the same link spelled with a trailing separator or `/.` (the kernel then
                    // resolves it), or used as a directory on the way to the declared path: what
                    // lies behind a link is never cleaned (hash of the name decides, not the
                    // generator's stream)
                    let h = simrt::stamp::fnv(simrt::stamp::FNV_INIT, format!("{}/{}", p.dir, link).as_bytes());
                    let is_dir_link = link_files.last().map(|f| matches!(&f.kind, FileKind::Symlink(t) if !t.ends_with(".txt"))).unwrap_or(false);
                    if is_dir_link && h % 5 == 3 {
                        // the link dangles: what it pointed to is gone; the link is still the
                        // declared output path
                        let n = link_files.len();
                        link_files.remove(n - 2);
                    }
                    let declared = match (is_dir_link, h % 5) {
                        (true, 0) => format!("{}/", link),
                        (true, 1) => format!("{}/.", link),
                        (true, 2) => format!("{}/inner.txt", link),
                        _ => link,
                    };
                    t.output.push(Res::Paths { paths: vec![declared], extensions: link_ext });
                }
            }
        }
        sc.files.extend(link_files);
        // a loaded project without any target that still holds recorded state of former targets
        if rng.chance(25) && sc.projects[0].targets.iter().all(|t| t.name != "zz") {
            let idx = sc.projects.len();
            sc.projects.push(Project { dir: "pe".into(), name: Some("empty".into()), imports: vec![], targets: vec![], raw_yaml: None, import_paths: Default::default() });
            sc.projects[0].imports.push(("empty".into(), idx));
            sc.files.push(FileSpec { path: "pe/.zinoma/former.checksums".into(), kind: FileKind::File("state of a target that no longer exists\n".into()) });
            sc.files.push(FileSpec { path: "pe/keep.txt".into(), kind: FileKind::File("must survive\n".into()) });
        }
        // sometimes a --clean without targets at the end
        if rng.chance(50) {
            let mut inv = plain_invocation(rng, &sc, 0, vec!["--clean".into()]);
            inv.plan.events.clear();
            sc.steps.push(Step::Invoke(inv));
        }
        sc.label = format!("clean-{}", sc.label);
        sc
    }
    fn narrow(&self, sc: &Scenario, v: &Violation) -> Option<Scenario> {
        let f = v.witness.split(' ').find_map(|t| t.strip_prefix("focus="))?;
        let mut out = sc.clone();
        out.focus = Some(f.to_string());
        Some(out)
    }
    fn evaluate(&self, sc: &Scenario, root: &Path, stats: &mut Stats) -> Option<Violation> {
        if sc.focus.is_none() {
            if let Some(v) = eval_history(sc, root, stats, Some(Which::Sound), any_target, Some(clean_oracle), |_sc, c, _| c.inv.args.iter().any(|a| a == "--clean")) {
                return Some(v);
            }
        }
        crash_inside_clean(sc, root, stats)
    }
}

/// zinoma killed at sampled decision indices inside the last `--clean` invocation of the
/// history: whatever was deleted so far must lie inside the deletion set; nothing else may have
/// changed.
fn crash_inside_clean(sc: &Scenario, root: &Path, stats: &mut Stats) -> Option<Violation> {
    let ci = sc.steps.iter().rposition(|s| matches!(s, Step::Invoke(i) if i.args.iter().any(|a| a == "--clean")))?;
    let inv = match &sc.steps[ci] {
        Step::Invoke(i) => i.clone(),
        _ => return None,
    };
    // only every third case pays for the enumeration (the focus of a narrowed replay always does)
    if sc.focus.is_none() && simrt::stamp::fnv(simrt::stamp::FNV_INIT, sc.label.as_bytes()).wrapping_add(inv.hash_seed) % 3 != 0 {
        return None;
    }
    let mut case = materialize(sc, root).ok()?;
    let mut idx = 0;
    for st in &sc.steps[..ci] {
        match st {
            Step::Invoke(p) => {
                let _ = run_invocation(sc, &mut case, p, &format!("pre{}", idx));
                idx += 1;
            }
            Step::Fs(op) => {
                let mut clock = case.clock;
                simrt::vfs::apply_plain(&case.root.clone(), &case.vars_dir(), op, &mut clock);
                case.clock = clock;
            }
            Step::CorruptState { project, target, how } => apply_corruption(sc, &case, *project, target, how),
        }
    }
    let base = root.with_extension("cbase");
    let _ = std::fs::remove_dir_all(&base);
    if super::crash::copy_tree(root, &base).is_err() {
        return None;
    }
    let clock0 = case.clock;
    let before_tree = snapshot_tree(&case.root);
    let r0 = run_invocation(sc, &mut case, &inv, "c0");
    let n = r0.footer.as_ref().map(|f| f.decisions).unwrap_or(0);
    let choices = r0.footer.as_ref().map(|f| f.choices.clone()).unwrap_or_default();
    let mut ks: Vec<u64> = vec![];
    let m = 12u64;
    if n <= m {
        ks.extend(1..=n);
    } else {
        for i in 0..m {
            ks.push(1 + i * (n - 1) / (m - 1));
        }
        ks.dedup();
    }
    if let Some(f) = &sc.focus {
        ks.retain(|k| &format!("cleancrash@{}", k) == f);
    }
    let mut verdict = None;
    for k in ks {
        let _ = std::fs::remove_dir_all(root);
        if super::crash::copy_tree(&base, root).is_err() {
            break;
        }
        case.clock = clock0;
        let mut ci_inv = inv.clone();
        ci_inv.plan.choices = Some(choices.clone());
        ci_inv.plan.pad_zero = false;
        ci_inv.plan.crash_at = Some(k);
        let r = run_invocation(sc, &mut case, &ci_inv, "ck");
        stats.absorb_run(&ci_inv, &r, r.code == 137);
        stats.enumerated += 1;
        if r.code != 137 {
            continue;
        }
        let after_tree = snapshot_tree(&case.root);
        let model = Model { records: BTreeMap::new(), own_before_foreign: BTreeMap::new() };
        let o = InvObs { sc, case: &case, inv: &ci_inv, r: &r, before_tree: &before_tree, after_tree: &after_tree, crashed: true };
        if let Some(v) = clean_oracle(&o, &model) {
            verdict = Some(Violation { oracle: format!("crash-in-clean:{}", v.oracle), witness: format!("{} focus=cleancrash@{}", v.witness, k), message: format!("zinoma killed at decision {} of `{}`: {}", k, inv.args.join(" "), v.message) });
            break;
        }
    }
    let _ = std::fs::remove_dir_all(&base);
    verdict
}

/// Two or three projects whose producers all declare the SAME command line as an output, and a
/// root consumer inheriting all of them (plus, sometimes, declaring it itself): the per-directory
/// values are changed one at a time between invocations.
pub fn gen_shared_command_layout(rng: &mut Rng) -> Scenario {
    let np = rng.range(2, 3);
    let mut projects = vec![Project { dir: "p0".into(), name: if rng.chance(50) { Some("root".into()) } else { None }, imports: vec![], targets: vec![], raw_yaml: None, import_paths: Default::default() }];
    let mut vars = BTreeMap::new();
    let mut files = vec![];
    let names = ["liba", "libb"];
    let mut consumer = Target::new("report", Kind::Build);
    for i in 1..=np - 1 + 1 {
        if i > 2 {
            break;
        }
        let dir = format!("p{}", i);
        let mut gen_t = Target::new("gen", Kind::Build);
        gen_t.input.push(Res::Paths { paths: vec!["src.txt".into()], extensions: None });
        gen_t.output.push(Res::Cmd { key: "ver".into() });
        if rng.chance(60) {
            gen_t.output.push(Res::Paths { paths: vec!["out/gen.out".into()], extensions: None });
            gen_t.writes.push("out/gen.out".into());
        }
        files.push(FileSpec { path: format!("{}/src.txt", dir), kind: FileKind::File(format!("{} source\n", dir)) });
        files.push(FileSpec { path: format!("{}/out", dir), kind: FileKind::Dir });
        vars.insert(format!("{}__ver", dir), format!("{} version 1\n", dir));
        projects.push(Project { dir, name: Some(names[i - 1].into()), imports: vec![], targets: vec![gen_t], raw_yaml: None, import_paths: Default::default() });
        projects[0].imports.push((names[i - 1].into(), i));
        consumer.deps.push(DepRef { project: i, target: "gen".into(), via_dep: rng.chance(30), via_output: true, qualified: true });
    }
    if rng.chance(50) {
        consumer.input.push(Res::Paths { paths: vec!["own.txt".into()], extensions: None });
        files.push(FileSpec { path: "p0/own.txt".into(), kind: FileKind::File("own\n".into()) });
    }
    if rng.chance(30) {
        consumer.input.push(Res::Cmd { key: "ver".into() });
        vars.insert("p0__ver".into(), "p0 version 1\n".into());
    }
    consumer.output.push(Res::Paths { paths: vec!["out/report.out".into()], extensions: None });
    consumer.writes.push("out/report.out".into());
    files.push(FileSpec { path: "p0/out".into(), kind: FileKind::Dir });
    projects[0].targets.push(consumer);
    let mut sc = Scenario { focus: None, label: "io-shared-command".into(), projects, files, vars, steps: vec![] };
    let ninv = rng.range(2, 4);
    for k in 0..ninv {
        let inv = plain_invocation(rng, &sc, 0, vec!["report".into()]);
        sc.steps.push(Step::Invoke(inv));
        if k + 1 < ninv && rng.chance(75) {
            let keys: Vec<String> = sc.vars.keys().cloned().collect();
            let key = rng.pick(&keys).clone();
            sc.steps.push(Step::Fs(FsOp::SetVar { key: key.clone(), value: format!("{} version {}\n", key, k + 2) }));
        }
    }
    sc
}
