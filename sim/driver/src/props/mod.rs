pub mod config;
pub mod crash;
pub mod exit;
pub mod history;
pub mod oneshot;
pub mod watch;

use crate::engine::{Property, Stats};
use crate::model::{self, Tid};
use crate::run::{run_invocation, RunResult};
use crate::scen::{materialize, Case, Invocation, Kind, Scenario, Step};
use serde_json::{json, Value};
use std::collections::BTreeSet;
use std::path::Path;

pub fn all() -> Vec<Box<dyn Property>> {
    let mut v = oneshot::all();
    v.extend(history::all());
    v.push(Box::new(crash::C05));
    v.extend(watch::all());
    v.push(Box::new(exit::C10));
    v.push(Box::new(config::C14));
    v
}

/// Everything an oracle over one invocation needs.
pub struct InvCtx<'a> {
    pub sc: &'a Scenario,
    pub inv: &'a Invocation,
    pub r: &'a RunResult,
    pub req: Vec<Tid>,
    pub clo: BTreeSet<Tid>,
    pub service_root: bool,
}

impl<'a> InvCtx<'a> {
    pub fn new(sc: &'a Scenario, inv: &'a Invocation, r: &'a RunResult) -> InvCtx<'a> {
        let req = model::requested(sc, inv.entry, &inv.args);
        let clo = model::closure(sc, &req);
        let service_root = req.iter().any(|t| model::is_service_root(sc, t));
        InvCtx { sc, inv, r, req, clo, service_root }
    }
    pub fn sim_id(&self, t: &Tid) -> String {
        self.sc.sim_id(t.0, &t.1)
    }
    pub fn display(&self, t: &Tid) -> String {
        self.sc.display(t.0, &t.1)
    }
    /// seq at which build target `t` became ready: successful exit or skip (first one)
    pub fn build_ready_seqs(&self, t: &Tid) -> Vec<u64> {
        let mut v: Vec<u64> = self.r.insts(&self.sim_id(t)).iter().filter_map(|p| p.exit.as_ref().filter(|e| e.1 == 0).map(|e| e.0)).collect();
        v.extend(self.r.skips(&self.display(t)));
        v.sort();
        v
    }
    pub fn starts(&self, t: &Tid) -> Vec<u64> {
        self.r.insts(&self.sim_id(t)).iter().map(|p| p.spawn_seq).collect()
    }
}

pub fn first_invocation(sc: &Scenario) -> Option<&Invocation> {
    sc.steps.iter().find_map(|s| match s {
        Step::Invoke(i) => Some(i),
        _ => None,
    })
}

pub fn sample_of(sc: &Scenario, inv: &Invocation, r: &RunResult) -> Value {
    let targets: Vec<String> = sc
        .projects
        .iter()
        .enumerate()
        .flat_map(|(pi, p)| {
            p.targets.iter().map(move |t| {
                let k = match t.kind {
                    Kind::Build => "build",
                    Kind::Service => "service",
                    Kind::Aggregate => "aggregate",
                };
                let deps: Vec<String> = t.deps.iter().map(|d| format!("{}{}", d.target, if d.via_output && d.via_dep { "(dep+output)" } else if d.via_output { "(output)" } else { "" })).collect();
                format!("p{}.{}:{}<-[{}]", pi, t.name, k, deps.join(","))
            })
        })
        .collect();
    let nonzero = r.footer.as_ref().map(|f| f.choices.iter().filter(|&&c| c != 0).count()).unwrap_or(0);
    json!({
        "shape": sc.label,
        "targets": if targets.len() > 24 { json!(format!("{} targets", targets.len())) } else { json!(targets) },
        "argv": inv.args,
        "hash_seed": inv.hash_seed,
        "strategy": inv.plan.strategy,
        "plan_events": inv.plan.events.len(),
        "faults": inv.plan.faults,
        "schedule": {
            "decisions": r.footer.as_ref().map(|f| f.decisions),
            "recorded_choices": r.footer.as_ref().map(|f| f.choices.len()),
            "non_default_choices": nonzero,
            "ending": r.exit_kind(),
            "exit_code": r.code,
        },
        "scripts_started": r.procs.iter().map(|p| p.id.clone()).collect::<Vec<_>>(),
    })
}

pub fn harness_error_of(r: &RunResult) -> Option<String> {
    if r.footer.is_none() && r.abnormal().is_none() {
        return Some(format!("no trace footer, exit code {}, stderr: {}", r.code, r.stderr.chars().take(300).collect::<String>()));
    }
    if r.code == 96 {
        return Some(format!("simulator rejected its plan: {}", r.stderr));
    }
    None
}

/// Materialise and run the single invocation of a one-shot scenario.
pub fn run_single(sc: &Scenario, root: &Path, stats: &mut Stats) -> Option<(Case, RunResult)> {
    let mut case = match materialize(sc, root) {
        Ok(c) => c,
        Err(e) => {
            stats.harness_errors.push(format!("materialize {}: {}", root.display(), e));
            return None;
        }
    };
    let inv = first_invocation(sc)?;
    let r = run_invocation(sc, &mut case, inv, "s0");
    Some((case, r))
}
