//! One-shot properties: C01(a), C04, C07, C08, C11, C17, C20.

use super::{harness_error_of, sample_of, InvCtx};
use crate::engine::{Property, Stats, Violation};
use crate::gen::{self, GraphOpts};
use crate::model::{self, Tid};
use crate::prng::Rng;
use crate::run::{run_invocation, RunResult};
use crate::scen::*;
use simrt::plan::Fault;
use std::collections::{BTreeMap, BTreeSet};
use std::path::Path;

pub fn all() -> Vec<Box<dyn Property>> {
    vec![Box::new(C04), Box::new(C01), Box::new(C08), Box::new(C07), Box::new(C11), Box::new(C17), Box::new(C20)]
}

fn viol(oracle: &str, witness: String, message: String) -> Option<Violation> {
    Some(Violation { oracle: oracle.into(), witness, message })
}

pub fn tid_of_sim_id(sc: &Scenario, id: &str) -> Option<Tid> {
    let rest = id.strip_prefix('p')?;
    let (p, name) = rest.split_once('.')?;
    let p: usize = p.parse().ok()?;
    sc.target(p, name)?;
    Some((p, name.to_string()))
}

/// Which closure targets are not ready (build: neither built nor skipped; service: not started).
fn not_ready(c: &InvCtx, before: Option<u64>) -> Vec<Tid> {
    let mut v = vec![];
    for t in &c.clo {
        let ok = match model::kind_of(c.sc, t) {
            Some(Kind::Build) => c.build_ready_seqs(t).iter().any(|&s| before.map(|b| s < b).unwrap_or(true)),
            Some(Kind::Service) => c.starts(t).iter().any(|&s| before.map(|b| s < b).unwrap_or(true)),
            _ => true,
        };
        if !ok {
            v.push(t.clone());
        }
    }
    v
}

fn stall_pattern(c: &InvCtx) -> String {
    let pend = c.r.footer.as_ref().map(|f| f.pending.clone()).unwrap_or_default();
    if pend.iter().any(|p| p.contains("(full)")) {
        return "full-queue".into();
    }
    let missing = not_ready(c, None);
    for t in &missing {
        for d in model::direct_deps(c.sc, t) {
            let ready = match model::kind_of(c.sc, &d) {
                Some(Kind::Build) => !c.build_ready_seqs(&d).is_empty(),
                Some(Kind::Service) => !c.starts(&d).is_empty(),
                _ => false,
            };
            if ready {
                return format!("late-requester(dep-kind={:?})", model::kind_of(c.sc, &d).unwrap());
            }
        }
    }
    "other".into()
}

fn names(c: &InvCtx, v: &[Tid]) -> String {
    v.iter().map(|t| c.display(t)).collect::<Vec<_>>().join(",")
}

// ------------------------------------------------------------------ oracles

/// C04: all scripts succeed and terminate ⇒ the run terminates with status 0 and every needed
/// target was built / skipped / started.
pub fn oracle_c04(c: &InvCtx) -> Option<Violation> {
    let r = c.r;
    if let Some(a) = r.abnormal() {
        return viol("abnormal-exit", a.clone(), format!("zinoma ended abnormally ({}) in a run where every script succeeds; stderr: {}", a, tail(&r.stderr)));
    }
    match r.exit_kind() {
        "stall" => {
            let missing = not_ready(c, None);
            let pat = stall_pattern(c);
            return viol(
                "stall",
                format!("pattern={} missing={}", pat, names(c, &missing)),
                format!(
                    "no runnable task and no enabled event before main returned: zinoma waits for ever. Not ready: [{}]. Blocked tasks: {:?}",
                    names(c, &missing),
                    r.footer.as_ref().map(|f| f.pending.clone()).unwrap_or_default()
                ),
            );
        }
        "budget" => return viol("no-termination", "step-budget".into(), "step budget exhausted although every script terminates".into()),
        "main-returned" => {}
        _ => return None,
    }
    if !observed_failures(c).is_empty() {
        // a failing script ends the run with an error: only termination is C04's business here
        return None;
    }
    if r.code != 0 {
        return viol("nonzero-exit", format!("code={}", r.code), format!("exit status {} although every script succeeds; stderr: {}", r.code, tail(&r.stderr)));
    }
    let upto = if c.service_root { r.seq_of("signal") } else { None };
    let missing = not_ready(c, upto);
    if !missing.is_empty() {
        let pat = stall_pattern(c);
        return viol(
            "needed-target-not-run",
            format!("pattern={} missing={}", pat, names(c, &missing)),
            format!("zinoma {} although [{}] was neither built, skipped nor started", if c.service_root { "went idle (only the signal ended it)" } else { "exited 0" }, names(c, &missing)),
        );
    }
    None
}

fn tail(s: &str) -> String {
    let t: Vec<&str> = s.lines().rev().take(3).collect();
    t.into_iter().rev().collect::<Vec<_>>().join(" | ")
}

/// C01(a): every start is preceded by readiness of every effective dependency.
pub fn oracle_c01a(c: &InvCtx) -> Option<Violation> {
    for p in &c.r.procs {
        if p.kind != "build" && p.kind != "service" {
            continue;
        }
        let t = match tid_of_sim_id(c.sc, &p.id) {
            Some(t) => t,
            None => continue,
        };
        for d in model::effective_deps(c.sc, &t) {
            let ready = match model::kind_of(c.sc, &d) {
                Some(Kind::Build) => c.build_ready_seqs(&d).iter().any(|&s| s < p.spawn_seq),
                Some(Kind::Service) => c.starts(&d).iter().any(|&s| s < p.spawn_seq),
                _ => true,
            };
            if !ready {
                return viol(
                    "start-before-dependency-ready",
                    format!("target={} dep={} dep-kind={:?}", c.display(&t), c.display(&d), model::kind_of(c.sc, &d).unwrap()),
                    format!("{} was started (seq {}) before its dependency {} was ready in this invocation", c.display(&t), p.spawn_seq, c.display(&d)),
                );
            }
        }
    }
    None
}

/// C08: at most once always; exactly once inside the closure when the run succeeds; never
/// outside the closure.
pub fn oracle_c08(c: &InvCtx) -> Option<Violation> {
    let upto = if c.service_root { c.r.seq_of("signal") } else { None };
    let succeeded = c.r.main_returned() && c.r.code == 0 && c.r.abnormal().is_none();
    for (p, name) in c.sc.all_targets() {
        let t: Tid = (p, name);
        let kind = model::kind_of(c.sc, &t).unwrap();
        if kind == Kind::Aggregate {
            continue;
        }
        let starts = c.starts(&t).len();
        let skips = c.r.skips(&c.display(&t)).len();
        let total = starts + skips;
        if !c.clo.contains(&t) {
            if total > 0 {
                return viol("outsider-executed", format!("target={}", c.display(&t)), format!("{} is outside the closure of the requested targets but was {}", c.display(&t), if starts > 0 { "started" } else { "evaluated/skipped" }));
            }
            continue;
        }
        if total > 1 {
            return viol("executed-twice", format!("target={} starts={} skips={}", c.display(&t), starts, skips), format!("{} was executed/skipped {} times in a one-shot run", c.display(&t), total));
        }
        if succeeded && total != 1 {
            let _ = upto;
            return viol("not-exactly-once", format!("target={} count={}", c.display(&t), total), format!("the run succeeded but {} was executed/skipped {} times", c.display(&t), total));
        }
    }
    None
}

/// Failures actually observed in the run: (target, seq).
pub fn observed_failures(c: &InvCtx) -> Vec<(Tid, u64)> {
    let mut v = vec![];
    for p in &c.r.procs {
        if let Some((seq, raw, _)) = &p.exit {
            if *raw != 0 && (p.kind == "build" || p.kind == "service") {
                if let Some(t) = tid_of_sim_id(c.sc, &p.id) {
                    if p.kind == "build" {
                        v.push((t, *seq));
                    }
                }
            }
        }
    }
    for e in c.r.events.iter().filter(|e| e.kind == "proc-spawn-failed") {
        if let Some(t) = e.field("id").and_then(|id| tid_of_sim_id(c.sc, id)) {
            v.push((t, e.seq));
        }
    }
    v
}

/// C07 (one-shot): failure ⇒ non-zero exit naming a failed target; dependents never start.
pub fn oracle_c07(c: &InvCtx) -> Option<Violation> {
    let r = c.r;
    let failed = observed_failures(c);
    if failed.is_empty() {
        return None;
    }
    if let Some(a) = r.abnormal() {
        return viol("abnormal-exit", a.clone(), format!("zinoma ended abnormally ({}) after a target failure", a));
    }
    let failed_set: BTreeSet<Tid> = failed.iter().map(|f| f.0.clone()).collect();
    // dependents never start
    for p in &r.procs {
        if p.kind != "build" && p.kind != "service" {
            continue;
        }
        if let Some(t) = tid_of_sim_id(c.sc, &p.id) {
            let deps = model::transitive_effective_deps(c.sc, &t);
            if let Some(f) = deps.iter().find(|d| failed_set.contains(*d) && c.build_ready_seqs(d).is_empty()) {
                return viol(
                    "dependent-of-failed-started",
                    format!("target={} failed-dep={}", c.display(&t), c.display(f)),
                    format!("{} was started although its dependency {} failed and never succeeded in this run", c.display(&t), c.display(f)),
                );
            }
        }
    }
    match r.exit_kind() {
        "main-returned" => {}
        "stall" => {
            return viol("stall-after-failure", format!("failed={}", names(c, &failed_set.iter().cloned().collect::<Vec<_>>())), "a target failed but zinoma neither exits nor makes progress".into());
        }
        _ => return None,
    }
    let signal_before_failure = r.seq_of("signal").map(|s| failed.iter().all(|f| s < f.1)).unwrap_or(false);
    if signal_before_failure {
        return None;
    }
    if r.code == 0 {
        return viol("zero-exit-after-failure", format!("failed={}", names(c, &failed_set.iter().cloned().collect::<Vec<_>>())), format!("exit status 0 although [{}] failed", names(c, &failed_set.iter().cloned().collect::<Vec<_>>())));
    }
    let named = failed_set.iter().any(|t| r.stderr.contains(&format!("An issue occurred with target {}", c.display(t))));
    if !named {
        return viol("failure-not-named", format!("stderr={}", tail(&r.stderr)), format!("exit status {} but the message names none of the failed targets [{}]: {}", r.code, names(c, &failed_set.iter().cloned().collect::<Vec<_>>()), tail(&r.stderr)));
    }
    None
}

/// C11 (one-shot): keep-alive iff a service stands behind a root; a dependency service outlives
/// the builds that need it; never two live instances of one service.
pub fn oracle_c11(c: &InvCtx) -> Option<Violation> {
    let r = c.r;
    if r.abnormal().is_some() || !matches!(r.exit_kind(), "main-returned") {
        return None;
    }
    let sig = r.seq_of("signal");
    let ret = r.seq_of("main-returned");
    let failed = !observed_failures(c).is_empty() || r.code != 0;
    if !failed {
        if c.service_root {
            match (sig, ret) {
                (Some(s), Some(m)) if s < m => {}
                _ => {
                    return viol(
                        "service-root-not-kept-alive",
                        format!("roots={}", names(c, &c.req)),
                        format!("a requested root stands for a service ([{}]) but zinoma exited before any termination signal", names(c, &c.req)),
                    )
                }
            }
        } else if let (Some(s), Some(m)) = (sig, ret) {
            if s < m {
                return viol(
                    "kept-alive-without-service-root",
                    format!("roots={}", names(c, &c.req)),
                    format!("no requested root stands for a service ([{}]) but zinoma stayed alive until the signal", names(c, &c.req)),
                );
            }
        }
    }
    // (ii) dependency services outlive dependent builds
    for p in &r.procs {
        if p.kind != "build" {
            continue;
        }
        let t = match tid_of_sim_id(c.sc, &p.id) {
            Some(t) => t,
            None => continue,
        };
        let end = p.exit.as_ref().map(|e| e.0).or(p.kill_seq).unwrap_or(u64::MAX);
        for d in model::effective_deps(c.sc, &t) {
            if model::kind_of(c.sc, &d) != Some(Kind::Service) {
                continue;
            }
            let insts = r.insts(&c.sim_id(&d));
            // the instance must be up at the build's start and stay up until the build's own
            // exit; a build cancelled at shutdown only needs the service at its start
            // a one-shot run also shuts down when a target fails: from then on services and
            // builds are torn down side by side, as after a signal
            let natural_end = p.exit.as_ref().map(|e| e.0);
            let first_failure = observed_failures(c).iter().map(|f| f.1).min();
            let shutdown = match (sig, first_failure) {
                (Some(a), Some(b)) => Some(a.min(b)),
                (a, b) => a.or(b),
            };
            let needed_until = natural_end.unwrap_or(p.spawn_seq).min(shutdown.unwrap_or(u64::MAX)).max(p.spawn_seq);
            let covering = insts.iter().any(|s| {
                let s_end = s.kill_seq.or(s.exit.as_ref().map(|e| e.0)).unwrap_or(u64::MAX);
                s.spawn_seq < p.spawn_seq && s_end > needed_until
            });
            let _ = end;
            if !covering && shutdown.map(|s| s > p.spawn_seq).unwrap_or(true) {
                return viol(
                    "service-not-running-during-dependent-build",
                    format!("build={} service={}", c.display(&t), c.display(&d)),
                    format!("service {} was not running for the whole build of {} which depends on it", c.display(&d), c.display(&t)),
                );
            }
        }
    }
    oracle_c11_instances(c)
}

/// C11 (iii): at most one live instance per service, in one-shot and watch runs; and every
/// service is stopped (killed and reaped) when zinoma exits.
pub fn oracle_c11_instances(c: &InvCtx) -> Option<Violation> {
    let r = c.r;
    if let Some(a) = r.abnormal() {
        // zinoma died (panic / abort): whatever service it had started and not stopped is orphaned
        if let Some(p) = r.procs.iter().find(|p| p.kind == "service" && p.kill_seq.is_none() && p.exit.is_none()) {
            return viol("service-orphaned-by-abnormal-exit", format!("service={} how={}", p.id, a), format!("zinoma ended abnormally ({}) while service {} was running: nothing stops it any more", a, p.id));
        }
    }
    if r.main_returned() {
        if let Some(f) = &r.footer {
            if let Some(p) = f.procs.iter().find(|p| p.kind == "service" && (p.state == "running" || (p.state == "killed" && !p.reaped))) {
                return viol(
                    "service-not-stopped-at-exit",
                    format!("service={} state={}", p.id, p.state),
                    format!("zinoma returned while service {} was {} ({})", p.id, p.state, if p.reaped { "reaped" } else { "not reaped" }),
                );
            }
        }
    }
    let mut by_id: BTreeMap<&str, Vec<&crate::run::ProcInst>> = BTreeMap::new();
    for p in r.procs.iter().filter(|p| p.kind == "service") {
        by_id.entry(p.id.as_str()).or_default().push(p);
    }
    for (id, insts) in by_id {
        for w in insts.windows(2) {
            let prev_end = match (w[0].kill_seq, w[0].reap_seq, w[0].exit.as_ref()) {
                (Some(_), Some(reap), _) => Some(reap),
                (_, _, Some(e)) => Some(e.0),
                _ => None,
            };
            let overlap = match prev_end {
                Some(e) => e > w[1].spawn_seq,
                None => true,
            };
            if overlap {
                return viol("two-live-service-instances", format!("service={}", id), format!("a new instance of {} was started (seq {}) while the previous one was neither exited nor killed and reaped", id, w[1].spawn_seq));
            }
        }
    }
    None
}

// ------------------------------------------------------------------ generic runner

fn eval_oneshot(sc: &Scenario, root: &Path, stats: &mut Stats, oracle: fn(&InvCtx) -> Option<Violation>, nontrivial: fn(&InvCtx) -> bool) -> Option<Violation> {
    let mut case = match materialize(sc, root) {
        Ok(c) => c,
        Err(e) => {
            stats.harness_errors.push(format!("materialize: {}", e));
            return None;
        }
    };
    let mut idx = 0;
    for st in &sc.steps {
        match st {
            Step::Invoke(inv) => {
                let r = run_invocation(sc, &mut case, inv, &format!("s{}", idx));
                idx += 1;
                let c = InvCtx::new(sc, inv, &r);
                stats.absorb_run(inv, &r, nontrivial(&c));
                let late = late_requests(&r);
                if late > 0 {
                    *stats.probes.entry("request-delivered-to-completed-target".into()).or_insert(0) += late;
                }
                if stats.sample.is_none() {
                    stats.sample = Some(sample_of(sc, inv, &r));
                }
                if let Some(h) = harness_error_of(&r) {
                    stats.harness_errors.push(h);
                    return None;
                }
                if let Some(v) = oracle(&c) {
                    return Some(v);
                }
            }
            Step::Fs(op) => {
                let mut clock = case.clock;
                simrt::vfs::apply_plain(&case.root.clone(), &case.vars_dir(), op, &mut clock);
                case.clock = clock;
            }
            Step::CorruptState { .. } => {}
        }
    }
    None
}

fn standard_invocation(rng: &mut Rng, sc: &Scenario, args: Vec<String>) -> Invocation {
    let n: usize = sc.projects.iter().map(|p| p.targets.len()).sum();
    let mut plan = gen::gen_plan(rng, 60 + 40 * n as u64);
    let req = model::requested(sc, 0, &args);
    if req.iter().any(|t| model::is_service_root(sc, t)) {
        plan.events.push(gen::signal_at_idle());
    }
    gen::invocation(rng, args, plan)
}

fn multi_dep_started(c: &InvCtx) -> bool {
    c.r.procs.iter().any(|p| tid_of_sim_id(c.sc, &p.id).map(|t| !model::direct_deps(c.sc, &t).is_empty()).unwrap_or(false))
}

// ------------------------------------------------------------------ C04

pub struct C04;
impl Property for C04 {
    fn id(&self) -> &'static str {
        "C04"
    }
    fn cases(&self, tier: &str) -> u64 {
        if tier == "quick" {
            6_000
        } else {
            150_000
        }
    }
    fn rule(&self) -> &'static str {
        "one case = one generated project (shape families chain/diamond/fan-in/fan-out/forest/shared-service/layered/dep+dependent, 4% deep or wide at the shipped queue capacity 64), one request list (every 50th case: 34-90 roots on one command line) and one seeded schedule (fifo / random-walk / PCT / delay-one) with a seeded hash order; every script terminates, and succeeds except in 15 % of the cases where one build exits non-zero or dies by signal (then only termination is required). evaluations = simulated invocations. distinct_nontrivial = distinct hashes of the order of channel operations, process and signal events among runs in which at least one target with a dependency was started"
    }
    fn assumptions(&self) -> Vec<&'static str> {
        vec!["scripts are virtual processes that terminate when the scheduler fires their exit event", "stall detection is exact because the simulated process has a single thread"]
    }
    fn generate(&self, rng: &mut Rng, case_no: u64) -> Scenario {
        let mut sc = gen::gen_graph(rng, &GraphOpts { big_permille: 30, force_wide: case_no % 100 == 17, ..Default::default() });
        let mut args = gen::gen_request(rng, &sc);
        if case_no % 50 == 29 || rng.chance(2) {
            // many roots on one command line (more than half the queue capacity): every target
            // of a mostly flat project requested by name
            let extra = rng.range(34, 90);
            for i in 0..extra {
                let mut t = Target::new(&format!("r{}", i), if rng.chance(85) { Kind::Build } else { Kind::Aggregate });
                if rng.chance(30) && !sc.projects[0].targets.is_empty() {
                    let d = rng.pick(&sc.projects[0].targets).name.clone();
                    if sc.target(0, &d).map(|x| x.kind != Kind::Service || t.kind != Kind::Aggregate).unwrap_or(true) {
                        t.deps.push(DepRef { project: 0, target: d, via_dep: true, via_output: false, qualified: false });
                    }
                }
                sc.projects[0].targets.push(t);
            }
            args = sc.projects[0].targets.iter().filter(|t| t.name.starts_with('r')).map(|t| t.name.clone()).collect();
            rng.shuffle(&mut args);
            sc.label = format!("many-roots-{}", sc.label);
        }
        if rng.chance(3) {
            // a valid but very long target name (its record's file name does not fit in a
            // directory entry), in a project whose work directory already exists
            let long = format!("t{}", "x".repeat(rng.range(246, 250)));
            let mut t = Target::new(&long, Kind::Build);
            sc.files.push(FileSpec { path: format!("p0/src/{}.txt", "long"), kind: FileKind::File("source of the long-named target\n".into()) });
            t.input.push(Res::Paths { paths: vec!["src/long.txt".into()], extensions: None });
            sc.projects[0].targets.push(t);
            sc.files.push(FileSpec { path: "p0/.zinoma/other.checksums".into(), kind: FileKind::File("state of some other target\n".into()) });
            args.push(long);
        }
        if rng.chance(4) {
            // a command resource that prints more than a pipe buffer holds
            let builds: Vec<usize> = (0..sc.projects[0].targets.len()).filter(|&i| sc.projects[0].targets[i].kind == Kind::Build).collect();
            if !builds.is_empty() {
                let i = *rng.pick(&builds);
                sc.projects[0].targets[i].input.push(Res::Cmd { key: "big".into() });
                sc.vars.insert("p0__big".into(), format!("!big:{}:end of a long listing\n", rng.range(66_000, 300_000)));
            }
        }
        let mut inv = standard_invocation(rng, &sc, args);
        if rng.chance(15) {
            // termination must not depend on every script succeeding
            let req = model::requested(&sc, 0, &inv.args);
            let clo: Vec<Tid> = model::closure(&sc, &req).into_iter().filter(|t| model::kind_of(&sc, t) == Some(Kind::Build)).collect();
            if !clo.is_empty() {
                let t = rng.pick(&clo).clone();
                let kind = *rng.pick(&["exit=1", "sig=9"]);
                inv.plan.faults.push(Fault { site: format!("proc.exit:{}", sc.sim_id(t.0, &t.1)), occurrence: 1, kind: kind.into() });
            }
        }
        sc.steps.push(Step::Invoke(inv));
        sc
    }
    fn required_probes(&self) -> Vec<&'static str> {
        vec!["send-blocked-on-full-queue", "request-delivered-to-completed-target"]
    }
    fn evaluate(&self, sc: &Scenario, root: &Path, stats: &mut Stats) -> Option<Violation> {
        eval_oneshot(sc, root, stats, oracle_c04, |c| {
            multi_dep_started(c)
        })
    }
}

/// Reach probe: a `Requested{Build}` received by an actor task after that task reported its
/// build done (the late-requester situation of C04's statement).
pub fn late_requests(r: &RunResult) -> u64 {
    let mut done_tasks: BTreeSet<&str> = BTreeSet::new();
    let mut n = 0;
    for e in &r.events {
        if e.kind == "log" && (e.rest.contains(" - Build success") || e.rest.contains(" - Build skipped")) {
            done_tasks.insert(e.task.as_str());
        } else if e.kind == "recv" && e.rest.contains(" Requested{kind:Build") && done_tasks.contains(e.task.as_str()) {
            n += 1;
        }
    }
    n
}

// ------------------------------------------------------------------ C01 (one-shot part)

pub struct C01;
impl Property for C01 {
    fn id(&self) -> &'static str {
        "C01"
    }
    fn cases(&self, tier: &str) -> u64 {
        if tier == "quick" {
            6_000
        } else {
            150_000
        }
    }
    fn rule(&self) -> &'static str {
        "one case = generated project (all kinds, both edge spellings, aggregates nested) + request list + seeded schedule and hash order; at every script/service start the oracle requires an earlier successful exit or skip (build) or start (service) of every effective dependency. distinct_nontrivial = distinct communication/event order hashes among runs where a target with at least one dependency was started"
    }
    fn required_probes(&self) -> Vec<&'static str> {
        vec!["invalidated-message-decoded"]
    }
    fn generate(&self, rng: &mut Rng, _case: u64) -> Scenario {
        if rng.chance(35) {
            return super::watch::gen_watch(rng, &super::watch::WatchOpts { inside_build_pct: 60, fail_pct: 15, ..Default::default() });
        }
        if rng.chance(30) {
            // several projects reusing target names, dependencies spelled as `dependencies`, as
            // `X.output`, or both, within and across projects
            let mut sc = gen::gen_io(rng, &gen::IoOpts { multi_project_pct: 100, max_targets: 7, cmd_pct: 10, cmd_output_pct: 0, own_output_inside_input_pct: 0, long_name_len: 0 });
            let args = gen::gen_request_io(rng, &sc, 0);
            if !args.is_empty() {
                let inv = standard_invocation(rng, &sc, args);
                sc.steps.push(Step::Invoke(inv));
                return sc;
            }
        }
        let mut sc = gen::gen_graph(rng, &GraphOpts { max_n: 10, ..Default::default() });
        let args = gen::gen_request(rng, &sc);
        let mut inv = standard_invocation(rng, &sc, args);
        if rng.chance(25) {
            // a dependency that does not finish successfully: dependents must not start
            let req = model::requested(&sc, 0, &inv.args);
            let clo: Vec<Tid> = model::closure(&sc, &req).into_iter().filter(|t| model::kind_of(&sc, t) == Some(Kind::Build)).collect();
            if !clo.is_empty() {
                let t = rng.pick(&clo).clone();
                let kind = if rng.chance(50) { "sig=9".to_string() } else { gen::fail_exit(rng) };
                inv.plan.faults.push(Fault { site: format!("proc.exit:{}", sc.sim_id(t.0, &t.1)), occurrence: 1, kind });
            }
        }
        sc.steps.push(Step::Invoke(inv));
        sc
    }
    fn evaluate(&self, sc: &Scenario, root: &Path, stats: &mut Stats) -> Option<Violation> {
        if sc.label.starts_with("watch-") {
            let s = super::watch::run_session(sc, root, stats, multi_dep_started)?;
            let n = s.r.events.iter().filter(|e| e.kind == "recv" && e.rest.contains(" Invalidated{")).count() as u64;
            *stats.probes.entry("invalidated-message-decoded".into()).or_insert(0) += n;
            let c = InvCtx::new(sc, &s.inv, &s.r);
            if let Some(v) = oracle_c01a(&c) {
                return Some(v);
            }
            return super::watch::oracle_c01b(sc, &s.r);
        }
        eval_oneshot(sc, root, stats, oracle_c01a, multi_dep_started)
    }
}

// ------------------------------------------------------------------ C08

pub struct C08;

fn c08_oracle_with_tree(c: &InvCtx) -> Option<Violation> {
    oracle_c08(c)
}

impl Property for C08 {
    fn id(&self) -> &'static str {
        "C08"
    }
    fn cases(&self, tier: &str) -> u64 {
        if tier == "quick" {
            4_000
        } else {
            100_000
        }
    }
    fn rule(&self) -> &'static str {
        "one case = project with shared dependencies + a priming invocation of every root + a second invocation with a request list containing duplicates, both spellings and dependency+dependent pairs, each under its own seeded schedule; per invocation and target the oracle counts script starts and skips (exactly one inside the closure on success, at most one always, zero outside) and compares the bytes and mtimes of outsiders' state files and outputs before/after. A quarter of the primed cases tear the record of one target before the second invocation; multi-project cases are built first and then partly cleaned (`--clean T`), with one-letter extension filters on shared output directories and links from one target's filtered output directory into another target's. One multi-project case in eight has target names too long for a record to fit in a directory entry (nothing can be recorded, and nothing may be written under a shortened name either: every entry of a work directory that is not the record of a target of the closure counts as outsider state). distinct_nontrivial = distinct order hashes among runs whose closure contains a target with two or more requesters"
    }
    fn generate(&self, rng: &mut Rng, _case: u64) -> Scenario {
        if rng.chance(30) {
            // several projects with the same target names: names must resolve inside the
            // declaring project, or a target outside the closure runs
            let mut sc = gen::gen_io(rng, &gen::IoOpts { multi_project_pct: 100, max_targets: 7, cmd_pct: 10, cmd_output_pct: 0, own_output_inside_input_pct: 0, long_name_len: 243 });
            // a link inside one target's filtered output directory to the output directory of
            // another target of the same project: not part of the former's outputs
            let mut links = vec![];
            for p in &sc.projects {
                let filtered: Vec<&Target> = p.targets.iter().filter(|t| t.output.iter().any(|r| matches!(r, Res::Paths { extensions: Some(e), .. } if e.iter().any(|x| !x.is_empty())))).collect();
                let with_dir: Vec<&Target> = p.targets.iter().filter(|t| t.writes.iter().any(|w| w.starts_with(&format!("out/{}/", t.name)))).collect();
                for a in &filtered {
                    for b in &with_dir {
                        if a.name != b.name && rng.chance(50) {
                            if let Some(Res::Paths { paths, .. }) = a.output.iter().find(|r| matches!(r, Res::Paths { extensions: Some(_), .. })) {
                                let up = "../".repeat(paths[0].matches('/').count() + 1);
                                links.push(FileSpec { path: format!("{}/{}/peer-{}", p.dir, paths[0], b.name), kind: FileKind::Symlink(format!("{}out/{}", up, b.name)) });
                            }
                        }
                    }
                }
            }
            sc.files.extend(links);
            // a third of these: everything is built first, then a part of it is cleaned
            let clean = rng.chance(35);
            if clean {
                let mut all = vec![];
                for pi in gen::loaded_projects(&sc, 0) {
                    for t in sc.projects[pi].targets.iter().filter(|t| t.kind == Kind::Build) {
                        match (&sc.projects[pi].name, pi) {
                            (_, 0) => all.push(t.name.clone()),
                            (Some(n), _) => all.push(format!("{}::{}", n, t.name)),
                            _ => {}
                        }
                    }
                }
                if !all.is_empty() {
                    let mut inv = super::history::plain_invocation(rng, &sc, 0, all);
                    inv.plan.strategy = simrt::plan::Strategy::Fifo;
                    sc.steps.push(Step::Invoke(inv));
                }
            }
            for _ in 0..rng.range(1, 2) {
                let mut args = gen::gen_request_io(rng, &sc, 0);
                if args.is_empty() {
                    continue;
                }
                if clean {
                    args.insert(0, "--clean".into());
                }
                let inv = super::history::plain_invocation(rng, &sc, 0, args);
                sc.steps.push(Step::Invoke(inv));
            }
            if !sc.steps.is_empty() {
                return sc;
            }
        }
        let mut sc = gen::gen_graph(rng, &GraphOpts { max_n: 9, ..Default::default() });
        if rng.chance(60) {
            // prime: request everything that nobody depends on, services excluded
            let all: Vec<String> = sc.projects[0].targets.iter().filter(|t| t.kind == Kind::Build).map(|t| t.name.clone()).collect();
            if !all.is_empty() {
                let inv = standard_invocation(rng, &sc, all);
                sc.steps.push(Step::Invoke(inv));
            }
        }
        let mut args = gen::gen_request(rng, &sc);
        if rng.chance(30) {
            // cleaning is confined to the closure as well
            args.insert(0, "--clean".into());
        }
        if !sc.steps.is_empty() && rng.chance(25) {
            // the record of one target was torn since the priming run (crash, full disk): dealing
            // with it is confined to that target as well
            let builds: Vec<String> = sc.projects[0].targets.iter().filter(|t| t.kind == Kind::Build && !t.input.is_empty()).map(|t| t.name.clone()).collect();
            if !builds.is_empty() {
                let target = rng.pick(&builds).clone();
                let how = match rng.below(4) {
                    0 => Corrupt::Truncate(rng.below(48)),
                    1 => Corrupt::Garbage(rng.next()),
                    2 => Corrupt::FlipBit(rng.below(8 * 120)),
                    _ => Corrupt::Empty,
                };
                sc.steps.push(Step::CorruptState { project: 0, target, how });
            }
        }
        let inv = standard_invocation(rng, &sc, args);
        sc.steps.push(Step::Invoke(inv));
        sc
    }
    fn evaluate(&self, sc: &Scenario, root: &Path, stats: &mut Stats) -> Option<Violation> {
        let mut case = match materialize(sc, root) {
            Ok(c) => c,
            // a generated file name built from a very long target name may not fit in a
            // directory entry: such a layout cannot exist, the case is void
            Err(e) if e.raw_os_error() == Some(libc::ENAMETOOLONG) => return None,
            Err(e) => {
                stats.harness_errors.push(format!("materialize: {}", e));
                return None;
            }
        };
        let mut idx = 0;
        for st in &sc.steps {
            if let Step::CorruptState { project, target, how } = st {
                super::history::apply_corruption(sc, &case, *project, target, how);
            }
            if let Step::Invoke(inv) = st {
                let before = outsider_snapshot(sc, &case, inv);
                let r = run_invocation(sc, &mut case, inv, &format!("s{}", idx));
                idx += 1;
                let c = InvCtx::new(sc, inv, &r);
                let shared = c.clo.iter().any(|t| c.clo.iter().filter(|o| model::direct_deps(sc, o).contains(t)).count() + c.req.iter().filter(|q| *q == t).count() >= 2);
                stats.absorb_run(inv, &r, shared);
                if stats.sample.is_none() {
                    stats.sample = Some(sample_of(sc, inv, &r));
                }
                if let Some(h) = harness_error_of(&r) {
                    stats.harness_errors.push(h);
                    return None;
                }
                if let Some(v) = c08_oracle_with_tree(&c) {
                    return Some(v);
                }
                let after = outsider_snapshot(sc, &case, inv);
                for (k, v) in &before {
                    if after.get(k) != Some(v) {
                        return viol("outsider-state-touched", format!("path={}", k), format!("{} belongs to a target outside the requested closure but changed during the invocation", k));
                    }
                }
                for k in after.keys() {
                    if !before.contains_key(k) {
                        return viol("outsider-state-touched", format!("path={}", k), format!("{} belongs to a target outside the requested closure but appeared during the invocation", k));
                    }
                }
            }
        }
        None
    }
}

/// State files and outputs of targets outside the closure: path → (mtime ns, bytes).
fn outsider_snapshot(sc: &Scenario, case: &Case, inv: &Invocation) -> BTreeMap<String, (i128, Vec<u8>)> {
    use std::os::unix::fs::MetadataExt;
    let req = model::requested(sc, inv.entry, &inv.args);
    let clo = model::closure(sc, &req);
    let mut m = BTreeMap::new();
    for (p, name) in sc.all_targets() {
        let t: Tid = (p, name.clone());
        if clo.contains(&t) {
            continue;
        }
        let dir = case.project_dir(sc, p);
        let mut paths = vec![dir.join(".zinoma").join(format!("{}.checksums", sc.display(p, &name)))];
        if let Some(tt) = sc.target(p, &name) {
            // outputs written by an outsider must not be shared with an insider's outputs
            let insider_writes: BTreeSet<String> = clo.iter().filter(|c| c.0 == p).filter_map(|c| sc.target(c.0, &c.1)).flat_map(|x| x.writes.clone()).collect();
            for w in &tt.writes {
                if !insider_writes.contains(w) {
                    paths.push(dir.join(w));
                }
            }
        }
        for path in paths {
            if let (Ok(md), Ok(b)) = (std::fs::metadata(&path), std::fs::read(&path)) {
                m.insert(path.to_string_lossy().into_owned(), (md.mtime() as i128 * 1_000_000_000 + md.mtime_nsec() as i128, b));
            }
        }
    }
    // whatever else lies in a work directory and is not the record of a target of the closure
    // (records kept under another name, of targets that no longer exist, ...) is not this run's
    let own: BTreeSet<std::path::PathBuf> = clo.iter().map(|t| case.project_dir(sc, t.0).join(".zinoma").join(format!("{}.checksums", sc.display(t.0, &t.1)))).collect();
    for p in 0..sc.projects.len() {
        if let Ok(rd) = std::fs::read_dir(case.project_dir(sc, p).join(".zinoma")) {
            for e in rd.flatten() {
                let path = e.path();
                if own.contains(&path) {
                    continue;
                }
                if let (Ok(md), Ok(b)) = (std::fs::metadata(&path), std::fs::read(&path)) {
                    m.insert(path.to_string_lossy().into_owned(), (md.mtime() as i128 * 1_000_000_000 + md.mtime_nsec() as i128, b));
                }
            }
        }
    }
    m
}

// ------------------------------------------------------------------ C07

pub struct C07;
impl Property for C07 {
    fn id(&self) -> &'static str {
        "C07"
    }
    fn cases(&self, tier: &str) -> u64 {
        if tier == "quick" {
            6_000
        } else {
            150_000
        }
    }
    fn rule(&self) -> &'static str {
        "one case = generated project + request + seeded schedule + a failing subset injected through the fault plan (build exits non-zero, build killed by a signal, build or service that cannot be spawned: EAGAIN), any position in the graph. Oracle: non-zero exit naming a target that failed in this run, no transitive dependent of a failed target ever started, no stall. distinct_nontrivial = distinct order hashes among runs in which a failure was actually observed"
    }
    fn generate(&self, rng: &mut Rng, case_no: u64) -> Scenario {
        if rng.chance(30) {
            return super::watch::gen_watch(rng, &super::watch::WatchOpts { fail_pct: 100, max_bursts: 3, ..Default::default() });
        }
        if case_no % 25 == 3 {
            // a re-build failing below a chain of dependents, then edits of the dependents' sources
            return super::watch::gen_watch_failure_below(rng);
        }
        // every 40th case: a wide graph (queues full) with one more, failing, target beside it
        let wide = case_no % 40 == 11;
        let mut sc = gen::gen_graph(rng, &GraphOpts { max_n: 9, force_wide: wide, ..Default::default() });
        let mut args = gen::gen_request(rng, &sc);
        if wide {
            sc.projects[0].targets.push(Target::new("flaky", Kind::Build));
            let n = sc.projects[0].targets.len();
            args = vec![sc.projects[0].targets[n - 2].name.clone(), "flaky".into()];
            if rng.chance(50) {
                args.reverse();
            }
        }
        let mut inv = standard_invocation(rng, &sc, args);
        if wide {
            inv.plan.faults.push(Fault { site: "proc.exit:p0.flaky".into(), occurrence: 1, kind: "exit=1".into() });
        }
        let req = model::requested(&sc, 0, &inv.args);
        let clo: Vec<Tid> = model::closure(&sc, &req).into_iter().filter(|t| model::kind_of(&sc, t) != Some(Kind::Aggregate)).collect();
        if !clo.is_empty() {
            let k = rng.weighted(&[0, 60, 30, 10]);
            for _ in 0..k {
                let t = rng.pick(&clo).clone();
                let id = sc.sim_id(t.0, &t.1);
                let is_build = model::kind_of(&sc, &t) == Some(Kind::Build);
                let f = match (is_build, rng.weighted(&[55, 15, 30])) {
                    (true, 0) => Fault { site: format!("proc.exit:{}", id), occurrence: 1, kind: gen::fail_exit(rng) },
                    (true, 1) => Fault { site: format!("proc.exit:{}", id), occurrence: 1, kind: "sig=9".into() },
                    _ => Fault { site: format!("proc.spawn:{}", id), occurrence: 1, kind: "eagain".into() },
                };
                if !inv.plan.faults.iter().any(|x| x.site == f.site) {
                    inv.plan.faults.push(f);
                }
            }
        }
        sc.steps.push(Step::Invoke(inv));
        sc
    }
    fn evaluate(&self, sc: &Scenario, root: &Path, stats: &mut Stats) -> Option<Violation> {
        if sc.label.starts_with("watch-") {
            let s = super::watch::run_session(sc, root, stats, |c| !observed_failures(c).is_empty())?;
            return super::watch::oracle_c07_watch(sc, &s);
        }
        eval_oneshot(sc, root, stats, oracle_c07, |c| !observed_failures(c).is_empty())
    }
}

// ------------------------------------------------------------------ C11

pub struct C11;
impl Property for C11 {
    fn id(&self) -> &'static str {
        "C11"
    }
    fn cases(&self, tier: &str) -> u64 {
        if tier == "quick" {
            6_000
        } else {
            150_000
        }
    }
    fn rule(&self) -> &'static str {
        "one case = service-heavy project (services as roots, behind aggregates, as dependencies of builds) + request + seeded schedule; the termination signal is only delivered at an idle point. Oracle: zinoma returns before the signal iff no requested root stands for a service; every dependency service is running from before the dependent build's start until its end; never two live instances of one service. distinct_nontrivial = distinct order hashes among runs that started at least one service"
    }
    fn generate(&self, rng: &mut Rng, _case: u64) -> Scenario {
        if rng.chance(30) {
            let mut sc = super::watch::gen_watch(rng, &super::watch::WatchOpts { service_bias: true, fail_pct: 25, watch_fail_pct: 35, ..Default::default() });
            // four sessions in ten are interrupted while a build that some service depends on is
            // being re-run (the service's restart is pending then), not at an idle point
            if rng.chance(40) {
                let all = sc.all_targets();
                let services: Vec<Tid> = all.iter().filter(|t| model::kind_of(&sc, t) == Some(Kind::Service)).cloned().collect();
                let mut cands: Vec<Tid> = vec![];
                for sv in &services {
                    for d in model::transitive_effective_deps(&sc, sv) {
                        if model::kind_of(&sc, &d) == Some(Kind::Build) && !cands.contains(&d) {
                            cands.push(d);
                        }
                    }
                }
                if !cands.is_empty() {
                    let d = rng.pick(&cands).clone();
                    let id = sc.sim_id(d.0, &d.1);
                    let nth = rng.range(1, 2) as u32;
                    if let Some(Step::Invoke(inv)) = sc.steps.last_mut() {
                        for e in inv.plan.events.iter_mut() {
                            if matches!(e.kind, simrt::plan::PlanEventKind::Signal) {
                                e.gate = simrt::plan::Gate::Running { id: id.clone(), nth };
                            }
                        }
                    }
                }
            }
            return sc;
        }
        let mut sc = gen::gen_graph(rng, &GraphOpts { max_n: 8, ..Default::default() });
        // make services more frequent
        let n = sc.projects[0].targets.len();
        for i in 0..n {
            if sc.projects[0].targets[i].kind == Kind::Build && rng.chance(25) {
                let name = sc.projects[0].targets[i].name.clone();
                let used_as_output = sc.projects[0].targets.iter().any(|t| t.deps.iter().any(|d| d.target == name && d.via_output));
                if !used_as_output {
                    let t = &mut sc.projects[0].targets[i];
                    t.kind = Kind::Service;
                    t.output.clear();
                    t.writes.clear();
                    for d in t.deps.iter_mut() {
                        d.via_dep = true;
                    }
                }
            }
        }
        let args = gen::gen_request(rng, &sc);
        let mut inv = standard_invocation(rng, &sc, args);
        if inv.plan.events.is_empty() {
            inv.plan.events.push(gen::signal_at_idle());
        }
        if rng.chance(25) {
            // a build fails (or cannot be launched) while services may already be up: the run
            // ends with an error, and every service started so far is stopped all the same
            let req = model::requested(&sc, 0, &inv.args);
            let builds: Vec<Tid> = model::closure(&sc, &req).into_iter().filter(|t| model::kind_of(&sc, t) == Some(Kind::Build)).collect();
            if !builds.is_empty() {
                let t = rng.pick(&builds).clone();
                let id = sc.sim_id(t.0, &t.1);
                inv.plan.faults.push(if rng.chance(80) { Fault { site: format!("proc.exit:{}", id), occurrence: 1, kind: gen::fail_exit(rng) } } else { Fault { site: format!("proc.spawn:{}", id), occurrence: 1, kind: "eagain".into() } });
            }
        }
        sc.steps.push(Step::Invoke(inv));
        sc
    }
    fn evaluate(&self, sc: &Scenario, root: &Path, stats: &mut Stats) -> Option<Violation> {
        if sc.label.starts_with("watch-") {
            let s = super::watch::run_session(sc, root, stats, |c| c.r.procs.iter().any(|p| p.kind == "service"))?;
            let c = InvCtx::new(sc, &s.inv, &s.r);
            if let Some(v) = oracle_c11_instances(&c) {
                return Some(v);
            }
            // a service about to restart must tell the builds depending on it (they wait for the
            // new instance instead of running against the one about to be stopped)
            // ... and a build must not be started while the latest word from a service it
            // depends on is that the service is out of date (about to be replaced)
            return super::watch::oracle_c01b(sc, &s.r)
                .filter(|v| (v.oracle == "out-of-date-not-announced" && v.witness.contains("kind=Service")) || (v.oracle == "start-while-dependency-out-of-date" && v.witness.contains("dep-kind=Service")))
                .map(|v| Violation { oracle: format!("service-restart:{}", v.oracle), witness: v.witness, message: v.message });
        }
        eval_oneshot(sc, root, stats, oracle_c11, |c| c.r.procs.iter().any(|p| p.kind == "service"))
    }
}

// ------------------------------------------------------------------ C17

pub struct C17;

fn oracle_c17(c: &InvCtx) -> Option<Violation> {
    let r = c.r;
    // the first point at which nothing more could happen without outside help
    let idle = r.events.iter().find(|e| e.kind == "quiescence" || e.kind == "stall").map(|e| e.seq)?;
    let members: Vec<String> = c.inv.plan.gates.get("A").cloned().unwrap_or_default();
    for id in &members {
        let t = match tid_of_sim_id(c.sc, id) {
            Some(t) => t,
            None => continue,
        };
        if c.starts(&t).iter().any(|&s| s < idle) {
            continue;
        }
        // (second invocation of an untouched tree: found up to date, which is progress as well)
        if r.skips(&c.display(&t)).iter().any(|&s| s < idle) {
            continue;
        }
        let deps_ready = model::effective_deps(c.sc, &t).iter().all(|d| match model::kind_of(c.sc, d) {
            Some(Kind::Build) => c.build_ready_seqs(d).iter().any(|&s| s < idle),
            Some(Kind::Service) => c.starts(d).iter().any(|&s| s < idle),
            _ => true,
        });
        if deps_ready {
            let started: Vec<&String> = members.iter().filter(|m| tid_of_sim_id(c.sc, m).map(|x| c.starts(&x).iter().any(|&s| s < idle)).unwrap_or(false)).collect();
            return viol(
                "independent-target-waits",
                format!("waiting={} running={:?}", c.display(&t), started),
                format!("{} has all its dependencies ready but was not started by the time zinoma went idle, while the independent targets {:?} are in progress (their scripts end only once every member of the antichain has started)", c.display(&t), started),
            );
        }
    }
    None
}

impl Property for C17 {
    fn id(&self) -> &'static str {
        "C17"
    }
    fn cases(&self, tier: &str) -> u64 {
        if tier == "quick" {
            5_000
        } else {
            120_000
        }
    }
    fn rule(&self) -> &'static str {
        "one case = generated project in which an antichain of 2..6 mutually independent build targets (none reachable from another) carries rendezvous-gated scripts: a member's exit event is enabled only once every member has started; unrelated never-ending builds and services run alongside. Every seventh case a member consumes `lib::<name>.output` beside a local namesake of that target. The run can complete iff all members overlap; a stall with an unstarted member whose dependencies are all ready is the violation. Three cases in ten run with --watch, members watching several directories that are written to while targets are still being launched. Half of the cases with gated command captures are run twice over the untouched tree: the second time the up-to-date checks are what waits for the commands. distinct_nontrivial = distinct order hashes among runs where at least two members were in progress together"
    }
    fn generate(&self, rng: &mut Rng, case_no: u64) -> Scenario {
        let mut sc = gen::gen_graph(rng, &GraphOpts { max_n: 9, ..Default::default() });
        let all: Vec<Tid> = sc.all_targets();
        let builds: Vec<Tid> = all.iter().filter(|t| model::kind_of(&sc, t) != Some(Kind::Aggregate)).cloned().collect();
        // greedy antichain
        let mut cand = builds.clone();
        rng.shuffle(&mut cand);
        let mut anti: Vec<Tid> = vec![];
        for t in cand {
            let reach_t = model::closure(&sc, &[t.clone()]);
            if anti.iter().all(|a| !reach_t.contains(a) && !model::closure(&sc, &[a.clone()]).contains(&t)) {
                anti.push(t);
            }
            if anti.len() >= 6 {
                break;
            }
        }
        // every 60th case: more members than half the queue capacity, all requested by name
        let want = if case_no % 60 == 7 { rng.range(34, 60) } else { 2 };
        // add fresh independent members when the graph offers fewer than wanted
        while anti.len() < want {
            let name = format!("x{}", anti.len());
            sc.projects[0].targets.push(Target::new(&name, Kind::Build));
            anti.push((0, name));
        }
        // every seventh case: an imported project holds a quick build with the same bare name as
        // one member, and another member consumes `lib::<name>.output` - which names the imported
        // target, not its namesake next door
        if case_no % 7 == 3 && anti.len() >= 2 && sc.projects.len() == 1 {
            let a = anti[0].clone();
            let b = anti[1].clone();
            if model::kind_of(&sc, &a) == Some(Kind::Build) && model::kind_of(&sc, &b) == Some(Kind::Build) {
                let mut twin = Target::new(&b.1, Kind::Build);
                let out = format!("out/{}.out", b.1);
                twin.output.push(Res::Paths { paths: vec![out.clone()], extensions: None });
                twin.writes.push(out);
                sc.projects.push(Project { dir: "p1".into(), name: Some("lib".into()), imports: vec![], targets: vec![twin], raw_yaml: None, import_paths: Default::default() });
                sc.projects[0].imports.push(("lib".into(), 1));
                sc.files.push(FileSpec { path: "p1/out".into(), kind: FileKind::Dir });
                if let Some(ta) = sc.projects[0].targets.iter_mut().find(|x| x.name == a.1) {
                    ta.deps.push(DepRef { project: 1, target: b.1.clone(), via_dep: false, via_output: true, qualified: true });
                }
            }
        }
        let ids: Vec<String> = anti.iter().map(|t| sc.sim_id(t.0, &t.1)).collect();
        for t in &anti {
            if let Some(tt) = sc.projects[t.0].targets.iter_mut().find(|x| x.name == t.1) {
                tt.gate = Some("A".into());
            }
        }
        // an unrelated build that never ends by itself
        let mut extra = vec![];
        if rng.chance(50) {
            let mut t = Target::new("longrun", Kind::Build);
            t.inf = true;
            sc.projects[0].targets.push(t);
            extra.push("longrun".to_string());
        }
        // a member is requested directly, or only reached as a dependency of a requested target
        let mut args: Vec<String> = vec![];
        for m in &anti {
            let dependents: Vec<Tid> = all.iter().filter(|t| !anti.contains(t) && model::closure(&sc, &[(*t).clone()]).contains(m) && !model::is_service_root(&sc, t)).cloned().collect();
            let a = if !dependents.is_empty() && rng.chance(50) { rng.pick(&dependents).1.clone() } else { m.1.clone() };
            if !args.contains(&a) {
                args.push(a);
            }
        }
        rng.shuffle(&mut args);
        // also request dependents of members sometimes, so that members are reached as dependencies
        for t in &all {
            if rng.chance(20) && !args.contains(&t.1) && model::kind_of(&sc, t) != Some(Kind::Service) && !model::is_service_root(&sc, t) {
                args.push(t.1.clone());
            }
        }
        if !extra.is_empty() {
            let pos = rng.below(args.len() + 1);
            args.insert(pos, extra[0].clone());
        }
        if rng.chance(30) {
            let mut agg = Target::new("allagg", Kind::Aggregate);
            for a in &args {
                agg.deps.push(DepRef { project: 0, target: a.clone(), via_dep: true, via_output: false, qualified: false });
            }
            if rng.chance(70) {
                sc.projects[0].targets.push(Target::new("svcx", Kind::Service));
                let pos = rng.below(agg.deps.len() + 1);
                agg.deps.insert(pos, DepRef { project: 0, target: "svcx".into(), via_dep: true, via_output: false, qualified: false });
            }
            sc.projects[0].targets.push(agg);
            args = vec!["allagg".into()];
        }
        // a quarter of the cases: every member also captures a command whose process ends only
        // once all members' commands are running, on a machine with 1-3 executor threads.
        // Capturing is asynchronous, so this completes - unless something blocks a worker thread
        // while it waits.
        let mut cmd_ids: Vec<String> = vec![];
        if rng.chance(25) {
            let mut k = 0;
            for t in &anti {
                if let Some(tt) = sc.projects[t.0].targets.iter_mut().find(|x| x.name == t.1) {
                    if tt.kind == Kind::Build {
                        tt.input.push(Res::Cmd { key: format!("slow{}@C", k) });
                        cmd_ids.push(format!("cmd:slow{}", k));
                        k += 1;
                    }
                }
            }
        }
        // a fifth of the ordinary cases run in watch mode: some members declare several input
        // directories under one extension filter (one watcher, several registrations), and files
        // in them are written while the targets are still being launched. Watching is per target
        // and must not hold up the launch of anybody else.
        let watch_variant = case_no % 60 != 7 && cmd_ids.len() < 2 && rng.chance(30);
        let mut watched_files: Vec<String> = vec![];
        if watch_variant {
            let mut picked = anti.clone();
            rng.shuffle(&mut picked);
            picked.truncate(rng.range(1, 3));
            for t in &picked {
                let dir = sc.projects[t.0].dir.clone();
                let k = rng.range(2, 4);
                let mut paths = vec![];
                for j in 0..k {
                    let d = format!("wsrc/{}/d{}", t.1, j);
                    let f = format!("{}/{}/f.txt", dir, d);
                    sc.files.push(FileSpec { path: f.clone(), kind: FileKind::File(format!("watched input of {} v0\n", t.1)) });
                    watched_files.push(f);
                    paths.push(d);
                }
                if let Some(tt) = sc.projects[t.0].targets.iter_mut().find(|x| x.name == t.1) {
                    tt.input.push(Res::Paths { paths, extensions: None });
                }
            }
        }
        let mut inv = standard_invocation(rng, &sc, args);
        if watch_variant {
            inv.args.insert(0, "--watch".into());
            for e in 0..rng.range(2, 4) {
                let mut ops = vec![];
                for o in 0..rng.range(2, 4) {
                    ops.push(simrt::plan::FsOp::Write { path: rng.pick(&watched_files).clone(), content: format!("edit {}.{} during launch\n", e, o) });
                }
                let gate = if rng.chance(40) { simrt::plan::Gate::Now } else { simrt::plan::Gate::Step(rng.below(60) as u64) };
                inv.plan.events.push(simrt::plan::PlanEvent { id: format!("w{}", e), kind: simrt::plan::PlanEventKind::Fs { ops }, gate });
            }
            if !inv.plan.events.iter().any(|e| matches!(e.kind, simrt::plan::PlanEventKind::Signal)) {
                inv.plan.events.push(gen::signal_at_idle());
            }
        }
        if cmd_ids.len() >= 2 {
            inv.plan.gates.insert("C".into(), cmd_ids);
            inv.plan.knobs.workers = rng.range(1, 3) as u32;
        } else {
            for p in sc.projects.iter_mut() {
                for t in p.targets.iter_mut() {
                    t.input.retain(|r| !matches!(r, Res::Cmd { key } if key.ends_with("@C")));
                }
            }
        }
        inv.plan.gates.insert("A".into(), ids);
        // the never-ending build and root services need the signal to finish the run
        if inv.plan.events.is_empty() {
            inv.plan.events.push(gen::signal_at_idle());
        }
        // half of the cases with gated command captures are run twice over the untouched tree:
        // the second time every member has a record and its up-to-date check is what waits for
        // the commands - all members' checks have to be in progress together
        let again = inv.plan.gates.contains_key("C") && !watch_variant && inv.hash_seed % 2 == 0;
        sc.steps.push(Step::Invoke(inv.clone()));
        if again {
            inv.hash_seed += 1;
            sc.steps.push(Step::Invoke(inv));
        }
        sc
    }
    fn evaluate(&self, sc: &Scenario, root: &Path, stats: &mut Stats) -> Option<Violation> {
        eval_oneshot(sc, root, stats, oracle_c17, |c| {
            let members: Vec<String> = c.inv.plan.gates.get("A").cloned().unwrap_or_default();
            let insts: Vec<&crate::run::ProcInst> = c.r.procs.iter().filter(|p| members.contains(&p.id)).collect();
            insts.iter().any(|a| insts.iter().any(|b| a.pid != b.pid && a.spawn_seq < b.spawn_seq && a.exit.as_ref().map(|e| e.0 > b.spawn_seq).unwrap_or(true)))
        })
    }
}

// ------------------------------------------------------------------ C20

pub struct C20;

fn run_summary(c: &InvCtx) -> (BTreeMap<String, usize>, BTreeSet<String>, String, bool) {
    let mut started = BTreeMap::new();
    for p in c.r.procs.iter().filter(|p| p.kind == "build" || p.kind == "service") {
        *started.entry(p.id.clone()).or_insert(0) += 1;
    }
    let mut skipped = BTreeSet::new();
    for (p, name) in c.sc.all_targets() {
        if !c.r.skips(&c.sc.display(p, &name)).is_empty() {
            skipped.insert(c.sc.sim_id(p, &name));
        }
    }
    let class = if c.r.abnormal().is_some() {
        "abnormal".to_string()
    } else if c.r.exit_kind() != "main-returned" {
        c.r.exit_kind().to_string()
    } else if c.r.code == 0 {
        "ok".into()
    } else {
        "error".into()
    };
    let kept_alive = match (c.r.seq_of("signal"), c.r.seq_of("main-returned")) {
        (Some(s), Some(m)) => s < m,
        _ => false,
    };
    (started, skipped, class, kept_alive)
}

impl Property for C20 {
    fn id(&self) -> &'static str {
        "C20"
    }
    fn cases(&self, tier: &str) -> u64 {
        if tier == "quick" {
            3_000
        } else {
            80_000
        }
    }
    fn rule(&self) -> &'static str {
        "one case = metamorphic pair on two copies of one generated tree containing aggregates (nested, empty, over builds, services or both): side 0 requests an aggregate, side 1 requests its dependencies instead (an empty aggregate: nothing else), each side under its own seeded schedule, the signal only at idle. Oracle: same multiset of started scripts and same skipped set, same exit class (a configuration refused before anything starts is an outcome too), same keep-alive. Every 50th pair is an aggregate over 33-60 dependencies; a tenth of the others fan out over an imported project's target with the aggregate's own bare name. distinct_nontrivial = distinct pairs of order hashes among pairs whose aggregate has at least one dependency"
    }
    fn generate(&self, rng: &mut Rng, case_no: u64) -> Scenario {
        // every 50th pair: an aggregate over more dependencies than half the message queue holds,
        // so that side 1 names 33-60 targets on the command line
        let wide = case_no % 50 == 13;
        if !wide && rng.chance(15) {
            // watch mode: everything requested through one aggregate must converge exactly as the
            // convergence oracle demands of directly requested targets
            let mut sc = super::watch::gen_watch(rng, &super::watch::WatchOpts { inside_build_pct: 55, ..Default::default() });
            let wi = sc.steps.len() - 1;
            let names: Vec<String> = match &sc.steps[wi] {
                Step::Invoke(inv) => inv.args.iter().filter(|a| !a.starts_with('-')).cloned().collect(),
                _ => vec![],
            };
            // put an aggregate between some target and two or more of its plain dependencies
            let cand: Vec<usize> = (0..sc.projects[0].targets.len()).filter(|&i| sc.projects[0].targets[i].kind != Kind::Aggregate && sc.projects[0].targets[i].deps.iter().filter(|d| d.via_dep && !d.via_output && d.project == 0).count() >= 2).collect();
            if sc.projects.len() == 1 && !cand.is_empty() {
                let ti = *rng.pick(&cand);
                let moved: Vec<DepRef> = sc.projects[0].targets[ti].deps.iter().filter(|d| d.via_dep && !d.via_output && d.project == 0).cloned().collect();
                sc.projects[0].targets[ti].deps.retain(|d| !(d.via_dep && !d.via_output && d.project == 0));
                sc.projects[0].targets[ti].deps.push(DepRef { project: 0, target: "mid".into(), via_dep: true, via_output: false, qualified: false });
                let mut mid = Target::new("mid", Kind::Aggregate);
                mid.deps = moved;
                sc.projects[0].targets.push(mid);
            }
            let mut agg = Target::new("aggall", Kind::Aggregate);
            for n in &names {
                let bare = n.rsplit("::").next().unwrap_or(n).to_string();
                if sc.target(0, &bare).is_some() && !agg.deps.iter().any(|d| d.target == bare) {
                    agg.deps.push(DepRef { project: 0, target: bare, via_dep: true, via_output: false, qualified: false });
                }
            }
            if !agg.deps.is_empty() && sc.projects.len() == 1 {
                sc.projects[0].targets.push(agg);
                if let Step::Invoke(inv) = &mut sc.steps[wi] {
                    inv.args = vec!["--watch".into(), "aggall".into()];
                }
                sc.label = format!("watch-agg-{}", sc.label);
                return sc;
            }
        }
        let mut sc = gen::gen_graph(rng, &GraphOpts { max_n: 8, ..Default::default() });
        // make sure there is an aggregate; bias the top node
        let n = sc.projects[0].targets.len();
        let mut aggs: Vec<usize> = (0..n).filter(|&i| sc.projects[0].targets[i].kind == Kind::Aggregate).collect();
        if aggs.is_empty() || rng.chance(40) {
            let mut t = Target::new("agg", Kind::Aggregate);
            let k = rng.weighted(&[10, 30, 30, 30]);
            let mut picks: Vec<usize> = (0..n).collect();
            rng.shuffle(&mut picks);
            for &j in picks.iter().take(k) {
                t.deps.push(DepRef { project: 0, target: sc.projects[0].targets[j].name.clone(), via_dep: true, via_output: false, qualified: false });
            }
            sc.projects[0].targets.push(t);
            aggs.push(n);
        }
        let mut a = *rng.pick(&aggs);
        if wide {
            let mut t = Target::new("wideagg", Kind::Aggregate);
            for i in 0..rng.range(33, 60) {
                let name = format!("w{}", i);
                sc.projects[0].targets.push(Target::new(&name, Kind::Build));
                t.deps.push(DepRef { project: 0, target: name, via_dep: true, via_output: false, qualified: false });
            }
            a = sc.projects[0].targets.len();
            sc.projects[0].targets.push(t);
        }
        let agg_name = sc.projects[0].targets[a].name.clone();
        let mut dep_names: Vec<String> = sc.projects[0].targets[a].deps.iter().map(|d| d.target.clone()).collect();
        if !wide && rng.chance(10) {
            // the aggregate fans out over an imported project's target of the SAME bare name
            // (`check: [lib::check, ...]`): names are unique per project only
            let mut twin = Target::new(&agg_name, Kind::Build);
            let out = format!("out/{}.out", agg_name);
            twin.output.push(Res::Paths { paths: vec![out.clone()], extensions: None });
            twin.writes.push(out);
            sc.projects.push(Project { dir: "p1".into(), name: Some("lib".into()), imports: vec![], targets: vec![twin], raw_yaml: None, import_paths: Default::default() });
            sc.projects[0].imports.push(("lib".into(), 1));
            sc.files.push(FileSpec { path: "p1/out".into(), kind: FileKind::Dir });
            sc.projects[0].targets[a].deps.push(DepRef { project: 1, target: agg_name.clone(), via_dep: true, via_output: false, qualified: true });
            dep_names.push(format!("lib::{}", agg_name));
        }
        // optionally another requested target alongside (same on both sides)
        let mut common: Vec<String> = vec![];
        if rng.chance(30) {
            let other = rng.below(sc.projects[0].targets.len());
            let name = sc.projects[0].targets[other].name.clone();
            if name != agg_name {
                common.push(name);
            }
        }
        if dep_names.is_empty() && common.is_empty() {
            // side 1 must request something: an unrelated plain build on both sides
            sc.projects[0].targets.push(Target::new("solo", Kind::Build));
            common.push("solo".into());
        }
        let mut args0 = vec![agg_name];
        args0.extend(common.clone());
        let mut args1 = dep_names;
        args1.extend(common);
        let mut dedup = vec![];
        for a in args1 {
            if !dedup.contains(&a) {
                dedup.push(a);
            }
        }
        // a third of the pairs run on primed trees with --clean on both sides: the recorded
        // state of the aggregate's dependencies must be forgotten on both
        let primed_clean = rng.chance(33);
        if primed_clean {
            let builds: Vec<String> = sc.projects[0].targets.iter().filter(|t| t.kind == Kind::Build).map(|t| t.name.clone()).collect();
            if !builds.is_empty() {
                let mut inv = standard_invocation(rng, &sc, builds);
                inv.plan.strategy = simrt::plan::Strategy::Fifo;
                inv.side = 9;
                sc.steps.push(Step::Invoke(inv));
            }
        }
        for (side, args) in [(0usize, args0), (1usize, dedup)] {
            let mut args = args;
            if primed_clean {
                args.insert(0, "--clean".into());
            }
            let mut inv = standard_invocation(rng, &sc, args);
            if inv.plan.events.is_empty() {
                inv.plan.events.push(gen::signal_at_idle());
            }
            inv.side = side;
            sc.steps.push(Step::Invoke(inv));
        }
        sc
    }
    fn evaluate(&self, sc: &Scenario, root: &Path, stats: &mut Stats) -> Option<Violation> {
        if sc.label.starts_with("watch-agg-") {
            let s = super::watch::run_session(sc, root, stats, |c| c.r.events.iter().any(|e| e.kind == "fs-apply"))?;
            if let Some(v) = super::watch::oracle_c06(sc, &s) {
                return Some(Violation { oracle: format!("watch-through-aggregate:{}", v.oracle), witness: v.witness, message: v.message });
            }
            return super::watch::oracle_c01b(sc, &s.r).map(|v| Violation { oracle: format!("watch-through-aggregate:{}", v.oracle), witness: v.witness, message: v.message });
        }
        let mut results: Vec<(Invocation, RunResult)> = vec![];
        let prime: Option<Invocation> = sc.steps.iter().find_map(|s| match s {
            Step::Invoke(i) if i.side == 9 => Some(i.clone()),
            _ => None,
        });
        for st in &sc.steps {
            if let Step::Invoke(inv) = st {
                if inv.side == 9 {
                    continue;
                }
                // each side on its own fresh copy of the tree (same path: hash order identical)
                let mut case = match materialize(sc, root) {
                    Ok(c) => c,
                    Err(e) => {
                        stats.harness_errors.push(format!("materialize: {}", e));
                        return None;
                    }
                };
                if let Some(p) = &prime {
                    let pr = run_invocation(sc, &mut case, p, "prime");
                    if !pr.main_returned() || pr.code != 0 {
                        return None;
                    }
                }
                let r = run_invocation(sc, &mut case, inv, &format!("side{}", inv.side));
                // zinoma refusing the configuration before anything starts (exit 1, "Error: ...")
                // is an outcome to compare, not a failure of the harness
                let refused = r.footer.is_none() && r.code == 1 && r.stderr.contains("Error:");
                if !refused {
                    if let Some(h) = harness_error_of(&r) {
                        stats.harness_errors.push(h);
                        return None;
                    }
                }
                results.push((inv.clone(), r));
            }
        }
        if results.len() != 2 {
            return None;
        }
        let c0 = InvCtx::new(sc, &results[0].0, &results[0].1);
        let c1 = InvCtx::new(sc, &results[1].0, &results[1].1);
        let agg_has_deps = c0.req.first().map(|t| !model::direct_deps(sc, t).is_empty()).unwrap_or(false);
        stats.absorb_run(&results[0].0, &results[0].1, false);
        stats.absorb_run(&results[1].0, &results[1].1, false);
        if agg_has_deps {
            stats.nontrivial.insert(results[0].1.order_hash ^ results[1].1.order_hash.rotate_left(17));
        }
        if stats.sample.is_none() {
            stats.sample = Some(serde_json::json!({"side0": sample_of(sc, &results[0].0, &results[0].1), "side1": sample_of(sc, &results[1].0, &results[1].1)}));
        }
        let s0 = run_summary(&c0);
        let s1 = run_summary(&c1);
        let w = format!("aggregate={} deps={:?}", c0.req.first().map(|t| c0.display(t)).unwrap_or_default(), results[1].0.args);
        if s0.2 != s1.2 {
            return viol("exit-class-differs", w, format!("requesting the aggregate ends as '{}', requesting its dependencies ends as '{}'", s0.2, s1.2));
        }
        if s0.2 == "ok" {
            if s0.0 != s1.0 || s0.1 != s1.1 {
                return viol("scripts-differ", w, format!("aggregate side started {:?} skipped {:?}; dependencies side started {:?} skipped {:?}", s0.0, s0.1, s1.0, s1.1));
            }
            if s0.3 != s1.3 {
                return viol("keep-alive-differs", w, format!("aggregate side kept alive until the signal: {}; dependencies side: {}", s0.3, s1.3));
            }
        }
        None
    }
}
