//! Watch sessions: C06 (convergence), C16 (watcher relevance / robustness), C01(b), C07 and
//! C11 in watch mode.

use super::history::plain_invocation;
use super::oneshot::tid_of_sim_id;
use super::{harness_error_of, sample_of, InvCtx};
use crate::engine::{Property, Stats, Violation};
use crate::gen::{self, GraphOpts, IoOpts};
use crate::model::{self, Tid};
use crate::prng::Rng;
use crate::run::{run_invocation, RunResult};
use crate::scen::*;
use simrt::plan::{Fault, FsOp, Gate, PlanEvent, PlanEventKind, Strategy};
use std::collections::{BTreeMap, BTreeSet};
use std::path::{Path, PathBuf};

fn viol(oracle: &str, witness: String, message: String) -> Option<Violation> {
    Some(Violation { oracle: oracle.into(), witness, message })
}

// ------------------------------------------------------------------ generation

#[derive(Clone)]
pub struct WatchOpts {
    pub max_bursts: usize,
    pub inside_build_pct: usize,
    pub prime_pct: usize,
    pub fail_pct: usize,
    pub service_bias: bool,
    /// only the io generator (X.output chains, several projects)
    pub io_only: bool,
    /// chance that the kernel refuses one of the file watches (inotify limit)
    pub watch_fail_pct: usize,
}

impl Default for WatchOpts {
    fn default() -> Self {
        WatchOpts { max_bursts: 5, inside_build_pct: 45, prime_pct: 60, fail_pct: 0, service_bias: false, io_only: false, watch_fail_pct: 0 }
    }
}

/// Own source files of a target (relative to the case root) with the flag "lies in a watched
/// directory" (false: the file itself is the watched path → in-place edits only).
fn own_sources(sc: &Scenario, t: &Tid) -> Vec<(String, bool, Option<Vec<String>>)> {
    let mut v = vec![];
    let tt = match sc.target(t.0, &t.1) {
        Some(x) => x,
        None => return v,
    };
    let pdir = &sc.projects[t.0].dir;
    for r in &tt.input {
        if let Res::Paths { paths, extensions } = r {
            for p in paths {
                let abs = format!("{}/{}", pdir, p);
                for f in &sc.files {
                    if let FileKind::File(_) = f.kind {
                        if f.path == abs {
                            v.push((f.path.clone(), false, extensions.clone()));
                        } else if f.path.starts_with(&format!("{}/", abs)) && !f.path.contains("/.zinoma/") {
                            v.push((f.path.clone(), true, extensions.clone()));
                        }
                    }
                }
            }
        }
    }
    v
}

fn gen_watch_op(rng: &mut Rng, sc: &Scenario, targets: &[Tid], n: u64) -> Option<FsOp> {
    let mut files: Vec<(String, bool, Option<Vec<String>>)> = vec![];
    for t in targets {
        files.extend(own_sources(sc, t));
    }
    if files.is_empty() {
        return None;
    }
    let (path, in_dir, _ext) = rng.pick(&files).clone();
    let dir = path.rsplit_once('/').map(|x| x.0.to_string()).unwrap_or_default();
    Some(if !in_dir {
        match rng.weighted(&[55, 15, 12, 9, 9]) {
            4 => FsOp::WriteOlder { path, content: format!("older revision #{}\n", n) },
            3 => FsOp::WriteMmap { path, content: format!("mmap#{}", n) },
            0 => FsOp::Write { path, content: format!("watch edit #{}\n", n) },
            1 => FsOp::Append { path, content: format!("+{}", n) },
            _ => FsOp::Touch { path },
        }
    } else {
        match rng.weighted(&[36, 10, 10, 15, 10, 10, 8, 8]) {
            7 => FsOp::WriteOlder { path, content: format!("older revision #{}\n", n) },
            6 => FsOp::WriteMmap { path, content: format!("mmap#{}", n) },
            0 => FsOp::Write { path, content: format!("watch edit #{}\n", n) },
            1 => FsOp::Append { path, content: format!("+{}", n) },
            2 => FsOp::Touch { path },
            3 => FsOp::Create { path: format!("{}/new{}.c", dir, n), content: format!("created #{}\n", n) },
            4 => FsOp::Delete { path },
            _ => {
                let ext = path.rsplit_once('.').map(|x| x.1.to_string()).unwrap_or_default();
                FsOp::Rename { from: path.clone(), to: format!("{}/moved{}.{}", dir, n, ext) }
            }
        }
    })
}

/// A watch session: optional priming one-shot run, then `--watch` with bursts of edits placed
/// while idle, inside builds, or back to back; finally the signal at idle.
pub fn gen_watch(rng: &mut Rng, o: &WatchOpts) -> Scenario {
    let mut sc = if !o.io_only && rng.chance(55) {
        let mut s = gen::gen_graph(rng, &GraphOpts { max_n: 6, ..Default::default() });
        // every build gets a source so that changes can reach it
        let mut extra = vec![];
        for t in s.projects[0].targets.iter_mut() {
            if t.kind != Kind::Aggregate && t.input.is_empty() && rng.chance(70) {
                let src = format!("src/{}.txt", t.name);
                extra.push(FileSpec { path: format!("p0/{}", src), kind: FileKind::File(format!("source of {} v0\n", t.name)) });
                t.input.push(Res::Paths { paths: vec![src], extensions: None });
            }
        }
        s.files.extend(extra);
        s
    } else {
        gen::gen_io(rng, &IoOpts { multi_project_pct: if o.io_only { 50 } else { 25 }, max_targets: 5, cmd_pct: 0, cmd_output_pct: 0, own_output_inside_input_pct: 0, long_name_len: 0 })
    };
    if o.service_bias {
        for t in sc.projects[0].targets.iter_mut() {
            if t.kind == Kind::Build && t.writes.is_empty() && rng.chance(50) {
                t.kind = Kind::Service;
                t.output.clear();
            }
        }
        // `X.output` of something that is now a service would be rejected by zinoma
        let services: Vec<String> = sc.projects[0].targets.iter().filter(|t| t.kind == Kind::Service).map(|t| t.name.clone()).collect();
        for p in sc.projects.iter_mut() {
            for t in p.targets.iter_mut() {
                for d in t.deps.iter_mut() {
                    if d.project == 0 && services.contains(&d.target) && d.via_output {
                        d.via_output = false;
                        d.via_dep = true;
                    }
                }
            }
        }
    }
    let args = if sc.projects.len() > 1 { gen::gen_request_io(rng, &sc, 0) } else { gen::gen_request(rng, &sc) };
    if rng.chance(o.prime_pct) {
        let builds: Vec<String> = args.iter().filter(|a| model::requested(&sc, 0, &[(*a).clone()]).iter().all(|t| !model::is_service_root(&sc, t))).cloned().collect();
        if !builds.is_empty() {
            let mut inv = plain_invocation(rng, &sc, 0, builds);
            inv.plan.strategy = Strategy::Fifo;
            sc.steps.push(Step::Invoke(inv));
        }
    }
    let mut wargs = vec!["--watch".to_string()];
    wargs.extend(args);
    let mut inv = plain_invocation(rng, &sc, 0, wargs);
    inv.plan.events.clear();
    inv.plan.knobs.trace_poll_empty = false;
    let req = model::requested(&sc, 0, &inv.args);
    let clo: Vec<Tid> = model::closure(&sc, &req).into_iter().collect();
    let builds_in_clo: Vec<Tid> = clo.iter().filter(|t| model::kind_of(&sc, t) == Some(Kind::Build)).cloned().collect();
    let nb = rng.range(1, o.max_bursts.max(1));
    let mut q = 1u32;
    let mut counter = 0u64;
    for b in 0..nb {
        let nops = rng.weighted(&[0, 60, 30, 10]);
        let mut ops = vec![];
        for _ in 0..nops {
            counter += 1;
            if let Some(op) = gen_watch_op(rng, &sc, &clo, counter) {
                ops.push(op);
            }
        }
        if ops.is_empty() {
            continue;
        }
        let gate = if rng.chance(8) {
            // right from the start: may land while targets are still being launched
            Gate::Now
        } else if rng.chance(o.inside_build_pct) && !builds_in_clo.is_empty() {
            let t = rng.pick(&builds_in_clo);
            Gate::Running { id: sc.sim_id(t.0, &t.1), nth: if rng.chance(50) { 0 } else { rng.range(1, 2) as u32 } }
        } else if b > 0 && rng.chance(25) {
            Gate::After(format!("e{}", b - 1))
        } else {
            let g = Gate::Quiescence(q);
            q += 1;
            g
        };
        inv.plan.events.push(PlanEvent { id: format!("e{}", b), kind: PlanEventKind::Fs { ops }, gate });
    }
    if rng.chance(o.fail_pct) {
        let services_in_clo: Vec<Tid> = clo.iter().filter(|t| model::kind_of(&sc, t) == Some(Kind::Service)).cloned().collect();
        if !services_in_clo.is_empty() && (builds_in_clo.is_empty() || rng.chance(35)) {
            // a service that cannot be launched
            let t = rng.pick(&services_in_clo);
            inv.plan.faults.push(Fault { site: format!("proc.spawn:{}", sc.sim_id(t.0, &t.1)), occurrence: 1, kind: "eagain".into() });
        } else if !builds_in_clo.is_empty() {
            let t = rng.pick(&builds_in_clo);
            let occ = rng.range(1, 2) as u32;
            let f = if rng.chance(20) {
                Fault { site: format!("proc.spawn:{}", sc.sim_id(t.0, &t.1)), occurrence: occ, kind: "eagain".into() }
            } else {
                Fault { site: format!("proc.exit:{}", sc.sim_id(t.0, &t.1)), occurrence: occ, kind: gen::fail_exit(rng) }
            };
            let exit_fault = f.site.starts_with("proc.exit");
            inv.plan.faults.push(f.clone());
            // a third of those: the same target fails again two runs later in exactly the same
            // way (a good run in between), which takes two more edits of its own sources
            if exit_fault && rng.chance(35) {
                let own: Vec<String> = own_sources(&sc, t).into_iter().map(|x| x.0).collect();
                if !own.is_empty() {
                    inv.plan.faults.push(Fault { occurrence: occ + 2, ..f.clone() });
                    for k in 0..3u32 {
                        let path = rng.pick(&own).clone();
                        inv.plan.events.push(PlanEvent { id: format!("again{}", k), kind: PlanEventKind::Fs { ops: vec![FsOp::Write { path, content: format!("fixed / broken again #{}\n", k) }] }, gate: Gate::Quiescence(q) });
                        q += 1;
                    }
                }
            }
            // half of the time the user keeps editing while that very run is in progress
            if exit_fault && rng.chance(50) {
                if let Some(op) = gen_watch_op(rng, &sc, &[t.clone()], 900 + occ as u64) {
                    let pos = inv.plan.events.len();
                    inv.plan.events.insert(pos, PlanEvent { id: "during-failing-run".into(), kind: PlanEventKind::Fs { ops: vec![op] }, gate: Gate::Running { id: sc.sim_id(t.0, &t.1), nth: occ } });
                }
            }
        }
    }
    if rng.chance(o.watch_fail_pct) {
        // which registration the kernel refuses: any of the first six, or (more often) one made
        // for a target that is launched lazily, after the requested roots (whose own
        // registrations come first, one per declared path)
        let root_regs: usize = req
            .iter()
            .filter_map(|t| sc.target(t.0, &t.1))
            .map(|t| t.input.iter().map(|r| if let Res::Paths { paths, .. } = r { paths.len() } else { 0 }).sum::<usize>())
            .sum();
        let occurrence = if rng.chance(60) { root_regs + rng.range(1, 4) } else { rng.range(1, 6) };
        inv.plan.faults.push(Fault { site: "notify.watch".into(), occurrence: occurrence as u32, kind: "enospc".into() });
    }
    inv.plan.events.push(gen::signal_at_idle());
    inv.plan.knobs.step_budget = 400_000;
    sc.steps.push(Step::Invoke(inv));
    sc.label = format!("watch-{}", sc.label);
    sc
}

/// Aimed at "dependents stay blocked, directly or transitively": `top -> app -> mid -> schema`
/// where `mid` is a service (or, as a control, a build or an aggregate over `schema`); everything
/// comes up, `schema`'s source is edited and its second run fails, zinoma goes idle, then the
/// sources of the targets above are edited one idle point at a time.
pub fn gen_watch_failure_below(rng: &mut Rng) -> Scenario {
    let mut files = vec![];
    let mut proj = Project { dir: "p0".into(), name: if rng.chance(30) { Some("root".into()) } else { None }, imports: vec![], targets: vec![], raw_yaml: None, import_paths: Default::default() };
    let mid_kind = match rng.weighted(&[60, 25, 15]) {
        0 => Kind::Service,
        1 => Kind::Build,
        _ => Kind::Aggregate,
    };
    let dep = |t: &str| DepRef { project: 0, target: t.into(), via_dep: true, via_output: false, qualified: false };
    let mut mk = |name: &str, kind: Kind, deps: Vec<&str>, files: &mut Vec<FileSpec>| {
        let mut t = Target::new(name, kind);
        if kind != Kind::Aggregate {
            let src = format!("src/{}.txt", name);
            files.push(FileSpec { path: format!("p0/{}", src), kind: FileKind::File(format!("source of {} v0\n", name)) });
            t.input.push(Res::Paths { paths: vec![src], extensions: None });
        }
        if kind == Kind::Build {
            let out = format!("out/{}.out", name);
            t.output.push(Res::Paths { paths: vec![out.clone()], extensions: None });
            t.writes.push(out);
        }
        for d in deps {
            t.deps.push(dep(d));
        }
        t
    };
    proj.targets.push(mk("schema", Kind::Build, vec![], &mut files));
    proj.targets.push(mk("mid", mid_kind, vec!["schema"], &mut files));
    proj.targets.push(mk("app", Kind::Build, vec!["mid"], &mut files));
    let with_top = rng.chance(75);
    if with_top {
        proj.targets.push(mk("top", Kind::Build, vec!["app"], &mut files));
    }
    let root = if with_top { "top" } else { "app" };
    let mut sc = Scenario { focus: None, label: format!("failure-below-{:?}", mid_kind).to_lowercase(), projects: vec![proj], files, vars: BTreeMap::new(), steps: vec![] };
    let mut inv = plain_invocation(rng, &sc, 0, vec!["--watch".to_string(), root.to_string()]);
    inv.plan.events.clear();
    inv.plan.knobs.trace_poll_empty = false;
    inv.plan.faults.push(Fault { site: "proc.exit:p0.schema".into(), occurrence: 2, kind: gen::fail_exit(rng) });
    inv.plan.events.push(PlanEvent { id: "e0".into(), kind: PlanEventKind::Fs { ops: vec![FsOp::Write { path: "p0/src/schema.txt".into(), content: "schema v1 (does not build)\n".into() }] }, gate: Gate::Quiescence(1) });
    let mut above: Vec<&str> = if with_top { vec!["top", "app"] } else { vec!["app"] };
    if rng.chance(50) {
        above.reverse();
    }
    let mut q = 2;
    for (k, name) in above.iter().enumerate() {
        if k > 0 && rng.chance(40) {
            break;
        }
        inv.plan.events.push(PlanEvent { id: format!("e{}", k + 1), kind: PlanEventKind::Fs { ops: vec![FsOp::Write { path: format!("p0/src/{}.txt", name), content: format!("{} v1\n", name) }] }, gate: Gate::Quiescence(q) });
        q += 1;
    }
    inv.plan.events.push(gen::signal_at_idle());
    inv.plan.knobs.step_budget = 400_000;
    sc.steps.push(Step::Invoke(inv));
    sc.label = format!("watch-{}", sc.label);
    sc
}

// ------------------------------------------------------------------ helpers on traces

fn watch_invocation(sc: &Scenario) -> Option<&Invocation> {
    sc.steps.iter().rev().find_map(|s| match s {
        Step::Invoke(i) if i.args.iter().any(|a| a == "--watch") => Some(i),
        _ => None,
    })
}

pub struct Session {
    pub case: Case,
    pub r: RunResult,
    pub inv: Invocation,
}

/// Runs every step; returns the result of the watch invocation (the last one).
pub fn run_session(sc: &Scenario, root: &Path, stats: &mut Stats, nontrivial: fn(&InvCtx) -> bool) -> Option<Session> {
    let mut case = match materialize(sc, root) {
        Ok(c) => c,
        Err(e) => {
            stats.harness_errors.push(format!("materialize: {}", e));
            return None;
        }
    };
    let mut last = None;
    let mut idx = 0;
    for st in &sc.steps {
        match st {
            Step::Invoke(inv) => {
                let r = run_invocation(sc, &mut case, inv, &format!("s{}", idx));
                idx += 1;
                let c = InvCtx::new(sc, inv, &r);
                let is_watch = inv.args.iter().any(|a| a == "--watch");
                stats.absorb_run(inv, &r, is_watch && nontrivial(&c));
                if is_watch {
                    // reach probe: a workload edit applied while some build script was running
                    let mut inside = 0u64;
                    for e in r.events.iter().filter(|e| e.kind == "fs-apply") {
                        if r.procs.iter().any(|p| p.kind == "build" && p.spawn_seq < e.seq && p.exit.as_ref().map(|x| x.0 > e.seq).unwrap_or(true) && p.kill_seq.map(|k| k > e.seq).unwrap_or(true)) {
                            inside += 1;
                        }
                    }
                    if inside > 0 {
                        *stats.probes.entry("change-applied-during-a-build".into()).or_insert(0) += inside;
                    }
                }
                if is_watch && stats.sample.is_none() {
                    let mut s = sample_of(sc, inv, &r);
                    s["plan_events_detail"] = serde_json::json!(inv.plan.events);
                    stats.sample = Some(s);
                }
                if let Some(h) = harness_error_of(&r) {
                    // a watch run that ends before block_on (e.g. a rejected project) is a harness
                    // matter; one that ends with an error inside the engine is the oracle's
                    if r.footer.is_none() {
                        stats.harness_errors.push(h);
                        return None;
                    }
                }
                last = Some((inv.clone(), r));
            }
            Step::Fs(op) => {
                let mut clock = case.clock;
                simrt::vfs::apply_plain(&case.root.clone(), &case.vars_dir(), op, &mut clock);
                case.clock = clock;
            }
            Step::CorruptState { project, target, how } => super::history::apply_corruption(sc, &case, *project, target, how),
        }
    }
    let (inv, r) = last?;
    Some(Session { case, r, inv })
}

/// Hash of the target's read list on the final tree (what a script started now would see).
fn final_snapshot(sc: &Scenario, case: &Case, t: &Tid) -> u64 {
    let tt = sc.target(t.0, &t.1).unwrap();
    let cwd = case.project_dir(sc, t.0);
    let mut entries = vec![];
    for r in sc.read_list(t.0, tt) {
        let mut part = vec![];
        simrt::stamp::read_tree(&cwd, &r, &mut part);
        entries.extend(part);
    }
    entries.sort();
    simrt::stamp::snapshot_hash(&entries)
}

fn hex(h: u64) -> String {
    format!("{:016x}", h)
}

/// Where in the life of the target's builds each workload edit landed (for witnesses).
fn change_placement(c: &InvCtx, t: &Tid) -> String {
    let id = c.sim_id(t);
    let insts = c.r.insts(&id);
    let mut inside = false;
    for e in c.r.events.iter().filter(|e| e.kind == "fs-apply") {
        for p in &insts {
            let end = p.exit.as_ref().map(|x| x.0).or(p.kill_seq).unwrap_or(u64::MAX);
            if e.seq > p.spawn_seq && e.seq < end {
                inside = true;
            }
        }
    }
    if inside {
        "change-during-own-build".into()
    } else {
        "change-outside-own-build".into()
    }
}

// ------------------------------------------------------------------ C06 oracle

pub fn oracle_c06(sc: &Scenario, s: &Session) -> Option<Violation> {
    oracle_c06_filtered(sc, s, |_, _| true)
}

/// The convergence oracle restricted to the targets `keep` selects (start-up and liveness
/// clauses always apply).
pub fn oracle_c06_filtered(sc: &Scenario, s: &Session, keep: fn(&Scenario, &Tid) -> bool) -> Option<Violation> {
    let r = &s.r;
    let c = InvCtx::new(sc, &s.inv, r);
    if let Some(a) = r.abnormal() {
        return viol("abnormal-exit", a.clone(), format!("zinoma ended abnormally ({}) in watch mode", a));
    }
    let sig = r.seq_of("signal");
    let ret = r.seq_of("main-returned");
    match r.exit_kind() {
        "main-returned" => {}
        "stall" => return viol("stall", "watch".into(), "watch session stalled although a signal was pending".into()),
        "budget" => return viol("no-quiescence", "step-budget".into(), "the watch session never became idle: rebuild loop".into()),
        _ => return None,
    }
    // start-up must not fail: zinoma stays alive until the signal
    match (sig, ret) {
        (Some(sg), Some(rt)) if sg < rt => {}
        _ => {
            return viol(
                "watch-ended-before-signal",
                format!("code={} stderr={}", r.code, r.stderr.lines().last().unwrap_or("").chars().take(120).collect::<String>().replace(&s.case.root.to_string_lossy().to_string(), "$ROOT")),
                format!("zinoma --watch exited (status {}) before any termination signal: {}", r.code, r.stderr.lines().rev().take(2).collect::<Vec<_>>().join(" | ")),
            )
        }
    }
    let sig = sig.unwrap();
    // every closure target up to date at the final idle point. A target whose last run failed,
    // or that depends on one, is blocked: it only has to have *seen* the last change.
    let last_failed = |t: &Tid| -> bool {
        r.insts(&c.sim_id(t)).last().map(|p| p.exit.as_ref().map(|e| e.1 != 0).unwrap_or(false)).unwrap_or(false)
            || r.events.iter().filter(|e| e.kind == "proc-spawn-failed" && e.field("id") == Some(c.sim_id(t).as_str())).last().map(|e| r.insts(&c.sim_id(t)).last().map(|p| p.spawn_seq < e.seq).unwrap_or(true)).unwrap_or(false)
    };
    for t in &c.clo {
        if model::kind_of(sc, t) == Some(Kind::Aggregate) || !keep(sc, t) {
            continue;
        }
        let blocked_by_dep = model::transitive_effective_deps(sc, t).iter().any(|d| last_failed(d));
        if blocked_by_dep {
            continue;
        }
        if last_failed(t) {
            // the failing run must be the one that saw the final inputs: a change made while a
            // failing build was running must not be forgotten
            let want = final_snapshot(sc, &s.case, t);
            if let Some(p) = r.insts(&c.sim_id(t)).last() {
                let spawn_failed_later = r.events.iter().any(|e| e.kind == "proc-spawn-failed" && e.field("id") == Some(c.sim_id(t).as_str()) && e.seq > p.spawn_seq);
                if !spawn_failed_later && p.snap != hex(want) {
                    return viol(
                        "change-forgotten-after-failed-build",
                        format!("target={} {}", c.display(t), change_placement(&c, t)),
                        format!("the last run of {} failed, but it had read inputs with snapshot {} while the final inputs have {}: a change made since was never acted upon", c.display(t), p.snap, hex(want)),
                    );
                }
            }
            continue;
        }
        if let Some(v) = target_up_to_date(sc, s, &c, t, sig) {
            return Some(v);
        }
        // the last evaluation of t comes after the last completion of each of its build
        // dependencies (and, for a service, after the last start of its service dependencies)
        let last_eval = c.starts(t).into_iter().chain(r.skips(&c.display(t)).into_iter()).filter(|&x| x < sig).max();
        if let Some(x) = last_eval {
            for d in model::effective_deps(sc, t) {
                let dk = model::kind_of(sc, &d);
                let d_last = match dk {
                    Some(Kind::Build) => c.build_ready_seqs(&d).into_iter().filter(|&y| y < sig).max(),
                    Some(Kind::Service) if model::kind_of(sc, t) == Some(Kind::Service) => c.starts(&d).into_iter().filter(|&y| y < sig).max(),
                    _ => None,
                };
                if let Some(y) = d_last {
                    if y > x {
                        return viol(
                            "not-re-evaluated-after-dependency-rerun",
                            format!("target={} dep={}", c.display(t), c.display(&d)),
                            format!("{} was last evaluated at seq {} but its dependency {} finished a later re-run at seq {}: the dependent was not brought up to date after its dependency's own re-run", c.display(t), x, c.display(&d), y),
                        );
                    }
                }
            }
        }
    }
    None
}

/// Is `t` up to date at the final idle point (just before the signal `sig`)?
pub fn target_up_to_date(sc: &Scenario, s: &Session, c: &InvCtx, t: &Tid, sig: u64) -> Option<Violation> {
    let r = &s.r;
    {
        let tt = sc.target(t.0, &t.1).unwrap();
        let want = final_snapshot(sc, &s.case, t);
        match tt.kind {
            Kind::Aggregate => {}
            Kind::Build => {
                let insts = r.insts(&c.sim_id(t));
                let last_ok = insts.iter().filter(|p| p.exit.as_ref().map(|e| e.1 == 0 && e.0 < sig).unwrap_or(false)).last();
                let skipped_only = insts.is_empty() && !r.skips(&c.display(t)).is_empty();
                if insts.is_empty() && !skipped_only {
                    return viol("target-never-evaluated", format!("target={}", c.display(t)), format!("{} is in the requested closure but was never built or skipped in the watch session", c.display(t)));
                }
                // outputs must be what a build from the final inputs produces
                let pdir = s.case.project_dir(sc, t.0);
                for w in &tt.writes {
                    let expect = simrt::stamp::stamp(&c.sim_id(t), w, want, tt.size);
                    let have = std::fs::read(pdir.join(w)).ok();
                    if have.as_deref() != Some(&expect[..]) {
                        let last_word = last_word_for(c, t);
                        return viol(
                            "output-stale-after-changes-stopped",
                            format!("target={} {} last-word={}", c.display(t), change_placement(c, t), last_word),
                            format!(
                                "after changes stopped and zinoma went idle, {} of {} is not what a build from the final inputs produces (expected stamp {}, found {:?}); last thing zinoma said about it: {}",
                                w,
                                c.display(t),
                                hex(want),
                                have.map(|b| String::from_utf8_lossy(&b).chars().take(60).collect::<String>()),
                                last_word
                            ),
                        );
                    }
                }
                if tt.writes.is_empty() && !skipped_only {
                    if let Some(p) = last_ok {
                        if p.snap != hex(want) {
                            return viol(
                                "last-run-predates-last-change",
                                format!("target={} {} last-word={}", c.display(t), change_placement(c, t), last_word_for(c, t)),
                                format!("the last successful run of {} read inputs with snapshot {} but the final inputs have {}", c.display(t), p.snap, hex(want)),
                            );
                        }
                    }
                }
            }
            Kind::Service => {
                let insts = r.insts(&c.sim_id(t));
                match insts.last() {
                    None => {
                        return viol("service-never-started", format!("target={}", c.display(t)), format!("service {} is in the requested closure but was never started", c.display(t)));
                    }
                    Some(p) => {
                        let alive = p.kill_seq.map(|k| k > sig).unwrap_or(true) && p.exit.is_none();
                        if !alive {
                            return viol("service-not-running-at-idle", format!("target={}", c.display(t)), format!("service {} was stopped and not restarted by the time zinoma went idle", c.display(t)));
                        }
                        if p.snap != hex(want) {
                            return viol(
                                "service-not-restarted-after-change",
                                format!("target={}", c.display(t)),
                                format!("the running instance of service {} was started from inputs with snapshot {} but the final inputs have {}", c.display(t), p.snap, hex(want)),
                            );
                        }
                    }
                }
            }
        }
    }
    None
}

fn last_word_for(c: &InvCtx, t: &Tid) -> String {
    let d = c.display(t);
    let pat = format!(" {} - ", d);
    c.r.logs()
        .filter(|e| e.rest.contains(&pat) && (e.rest.contains("Build") || e.rest.contains("Starting")))
        .last()
        .map(|e| {
            if e.rest.contains("skipped") {
                "skipped"
            } else if e.rest.contains("success") {
                "built"
            } else if e.rest.contains("Building") {
                "building"
            } else {
                "other"
            }
            .to_string()
        })
        .unwrap_or_else(|| "nothing".into())
}

// ------------------------------------------------------------------ C01(b): the barrier oracle

/// No execution of T is decided while the latest word T's actor received from a dependency D
/// is `Invalidated{D}` (DESIGN.md §7 C01).
pub fn oracle_c01b(sc: &Scenario, r: &RunResult) -> Option<Violation> {
    // map actor task → target through its first own event naming the target
    let mut task_of: BTreeMap<String, Tid> = BTreeMap::new();
    for e in &r.events {
        if e.kind == "proc-spawn" {
            if let Some(t) = e.field("id").and_then(|id| tid_of_sim_id(sc, id)) {
                if e.field("kind") != Some("cmd") {
                    task_of.entry(e.task.clone()).or_insert(t);
                }
            }
        } else if e.kind == "fs-issue" && e.rest.contains("/.zinoma/") && e.rest.ends_with(".checksums") {
            let name = e.rest.rsplit('/').next().unwrap_or("").trim_end_matches(".checksums");
            for (p, tn) in sc.all_targets() {
                if sc.display(p, &tn) == name && e.rest.contains(&format!("{}/.zinoma/", sc.projects[p].dir)) {
                    task_of.entry(e.task.clone()).or_insert((p, tn));
                }
            }
        }
    }
    for e in &r.events {
        if e.kind == "send" && (e.rest.contains("msg:Ok{") || e.rest.contains("msg:Invalidated{")) && !task_of.contains_key(&e.task) {
            let body = e.rest.split("msg:").nth(1).unwrap_or("");
            let tn = body.split("target_name:\"").nth(1).and_then(|x| x.split('"').next());
            let pn = if body.contains("project_name:Some(\"") { body.split("project_name:Some(\"").nth(1).and_then(|x| x.split('"').next()) } else { None };
            if let Some(tn) = tn {
                let disp = match pn {
                    Some(p) => format!("{}::{}", p, tn),
                    None => tn.to_string(),
                };
                if let Some(t) = sc.all_targets().into_iter().find(|t| sc.display(t.0, &t.1) == disp) {
                    task_of.insert(e.task.clone(), t);
                }
            }
        }
    }
    #[derive(Default)]
    struct St {
        // (dependency display, kind) → parked since the invalidation?
        invalid: BTreeMap<(String, String), bool>,
        // the actor told its requesters Ok for its own kind and has not taken it back since
        announced_ok: bool,
        // it learnt (seq, from what) that it is out of date while announced_ok: it owes its
        // requesters an Invalidated before it goes back to waiting
        owes_invalidated: Option<(u64, String)>,
    }
    let mut st: BTreeMap<String, St> = BTreeMap::new();
    let parse = |rest: &str| -> Option<(String, String, String)> {
        // recv cN Ok{kind:Build,target_id:TargetId{project_name:Some("root"),target_name:"t1"},actual:true} len=0
        let body = rest.split(' ').nth(1)?;
        let what = if body.starts_with("Ok{") {
            "ok"
        } else if body.starts_with("Invalidated{") {
            "inv"
        } else {
            return None;
        };
        let kind = body.split("kind:").nth(1)?.split(',').next()?.to_string();
        let tn = body.split("target_name:\"").nth(1)?.split('"').next()?.to_string();
        let pn = if body.contains("project_name:Some(\"") { Some(body.split("project_name:Some(\"").nth(1)?.split('"').next()?.to_string()) } else { None };
        let disp = match pn {
            Some(p) => format!("{}::{}", p, tn),
            None => tn,
        };
        Some((what.to_string(), kind, disp))
    };
    for e in &r.events {
        let t = match task_of.get(&e.task) {
            Some(t) => t.clone(),
            None => continue,
        };
        let s = st.entry(e.task.clone()).or_default();
        let own_kind_s = match model::kind_of(sc, &t) {
            Some(Kind::Build) => "Build",
            Some(Kind::Service) => "Service",
            _ => "",
        };
        match e.kind.as_str() {
            "recv" => {
                if let Some((what, kind, dep)) = parse(&e.rest) {
                    if what == "inv" {
                        // a build reacts to Build-kind notices only, a service to both
                        if s.announced_ok && (own_kind_s == "Service" || (own_kind_s == "Build" && kind == "Build")) {
                            s.owes_invalidated = Some((e.seq, format!("Invalidated{{{}}} from {}", kind, dep)));
                        }
                        s.invalid.insert((dep, kind), false);
                    } else {
                        s.invalid.remove(&(dep, kind));
                    }
                } else if e.rest.contains("TargetInvalidatedMessage") && s.announced_ok && !own_kind_s.is_empty() {
                    s.owes_invalidated = Some((e.seq, "a change notification for its own inputs".to_string()));
                }
            }
            // `send-closed`: the announcement was made but the engine has already stopped
            // listening (shutdown in progress) - the actor did what it owed
            "send" | "send-closed" if e.rest.contains("msg:Invalidated{") => {
                let names_self = e.rest.split("msg:Invalidated{").nth(1).map(|b| b.split("target_name:\"").nth(1).and_then(|x| x.split('"').next()).unwrap_or("") == t.1).unwrap_or(false);
                let kind = e.rest.split("msg:Invalidated{kind:").nth(1).and_then(|x| x.split(',').next()).unwrap_or("");
                if names_self && kind == own_kind_s {
                    s.announced_ok = false;
                    s.owes_invalidated = None;
                }
            }
            "park" | "task-done" => {
                if let Some((seq, why)) = &s.owes_invalidated {
                    return viol(
                        "out-of-date-not-announced",
                        format!("target={} kind={}", sc.display(t.0, &t.1), own_kind_s),
                        format!(
                            "{} had told its requesters Ok{{{}}}, then received {} (seq {}), and went back to waiting without telling them Invalidated{{{}}}: its dependents keep treating it as ready",
                            sc.display(t.0, &t.1),
                            own_kind_s,
                            why,
                            seq,
                            own_kind_s
                        ),
                    );
                }
            }
            "send" if e.rest.contains("msg:Ok{") => {
                // an aggregate acknowledges on behalf of its dependencies: it must not say Ok
                // for a kind while one of them last said Invalidated for that kind
                let own_kind = model::kind_of(sc, &t);
                let kind_s = e.rest.split("msg:Ok{kind:").nth(1).and_then(|x| x.split(',').next()).unwrap_or("").to_string();
                let names_self = e.rest.split("msg:Ok{").nth(1).map(|b| {
                    let tn = b.split("target_name:\"").nth(1).and_then(|x| x.split('"').next()).unwrap_or("");
                    tn == t.1
                }).unwrap_or(false);
                let real_ack = e.rest.contains("actual:true")
                    && ((own_kind == Some(Kind::Build) && kind_s == "Build") || (own_kind == Some(Kind::Service) && kind_s == "Service"));
                if names_self && real_ack {
                    s.announced_ok = true;
                    // a build / service announcing its own readiness: none of its dependencies may
                    // have "out of date" as its latest word (the announcement would be stale)
                    // (a build does not treat a restarting *service* dependency as making its
                    // own finished output stale — by design, see the TODO in build_target_actor —
                    // so only Build-kind notices count for builds)
                    if let Some(((dep, k), _)) = s.invalid.iter().find(|((_, k), _)| own_kind == Some(Kind::Service) || k == "Build") {
                        return viol(
                            "ready-announced-while-dependency-out-of-date",
                            format!("target={} dep={} dep-kind={}", sc.display(t.0, &t.1), dep, k),
                            format!("{} told its requesters Ok{{{}}} (seq {}) although the latest word it had received from its dependency {} was Invalidated{{{}}}: the result it announces was built from an out-of-date dependency", sc.display(t.0, &t.1), kind_s, e.seq, dep, k),
                        );
                    }
                }
                if own_kind == Some(Kind::Aggregate) {
                    let kind = kind_s.clone();
                    if let Some(((dep, k), _)) = s.invalid.iter().find(|((_, k), _)| *k == kind) {
                        return viol(
                            "aggregate-ready-while-dependency-out-of-date",
                            format!("aggregate={} dep={} kind={}", sc.display(t.0, &t.1), dep, k),
                            format!("aggregate {} told its requesters Ok{{{}}} (seq {}) although the latest word it had received from its dependency {} was Invalidated{{{}}}: whoever depends on the aggregate starts while that dependency is out of date", sc.display(t.0, &t.1), kind, e.seq, dep, k),
                        );
                    }
                }
            }
            "chan-new" | "proc-spawn" => {
                // the decision to execute is observable at the channel seam: a build actor
                // creates the cancellation channel of the new execution in the very statement
                // that decides it; a service actor goes from the decision to the spawn without
                // reading its inbox. Actor state is task-local, so what the actor "has
                // received" at that instant is exactly what the trace shows it received.
                let decides = if e.kind == "chan-new" { e.rest.ends_with("type=BuildCancellationMessage") } else { e.field("kind") == Some("service") };
                if !decides {
                    continue;
                }
                if let Some(((dep, kind), _)) = s.invalid.iter().next() {
                    return viol(
                        "start-while-dependency-out-of-date",
                        format!("target={} dep={} dep-kind={}", sc.display(t.0, &t.1), dep, kind),
                        format!(
                            "{} decided a new execution (seq {}) although the latest word its actor had received from its dependency {} was Invalidated{{{}}}",
                            sc.display(t.0, &t.1),
                            e.seq,
                            dep,
                            kind
                        ),
                    );
                }
            }
            _ => {}
        }
    }
    None
}

// ------------------------------------------------------------------ C07 in watch mode

pub fn oracle_c07_watch(sc: &Scenario, s: &Session) -> Option<Violation> {
    let r = &s.r;
    let c = InvCtx::new(sc, &s.inv, r);
    let failed = super::oneshot::observed_failures(&c);
    if failed.is_empty() || r.abnormal().is_some() {
        return None;
    }
    let sig = r.seq_of("signal");
    let ret = r.seq_of("main-returned");
    if let (Some(m), true) = (ret, sig.map(|s| ret.map(|m| m < s).unwrap_or(false)).unwrap_or(true)) {
        let _ = m;
        return viol("watch-ended-after-failure", format!("code={}", r.code), format!("a target failed and zinoma --watch exited (status {}) instead of reporting it and keeping on watching", r.code));
    }
    for (t, fseq) in &failed {
        let disp = c.display(t);
        let warned = r.logs().any(|e| e.seq > *fseq && e.rest.starts_with(&format!("WARN {} - ", disp)));
        if !warned && sig.map(|s| *fseq < s).unwrap_or(true) {
            return viol("failure-not-reported", format!("target={}", disp), format!("{} failed in watch mode but no warning naming it was printed", disp));
        }
        // dependents stay blocked until the failed target later succeeds
        let ready_seqs = |x: &Tid| -> Vec<u64> {
            if model::kind_of(sc, x) == Some(Kind::Service) {
                c.starts(x)
            } else {
                c.build_ready_seqs(x)
            }
        };
        let later_ok: Option<u64> = ready_seqs(t).into_iter().find(|&s| s > *fseq);
        for p in &r.procs {
            if p.kind != "build" && p.kind != "service" {
                continue;
            }
            let pt = match tid_of_sim_id(sc, &p.id) {
                Some(x) => x,
                None => continue,
            };
            if !model::transitive_effective_deps(sc, &pt).contains(t) {
                continue;
            }
            let in_blocked_window = p.spawn_seq > *fseq && later_ok.map(|ok| p.spawn_seq < ok).unwrap_or(true);
            // only meaningful if the failed target had not been ready before (first build), or
            // had been invalidated by the change that made it fail: in both cases its
            // dependents are told; a dependent running from an older readiness is C01's matter
            let was_ready_before = ready_seqs(t).iter().any(|&s| s < *fseq);
            if in_blocked_window && !was_ready_before {
                return viol(
                    "dependent-of-failed-started",
                    format!("target={} failed-dep={}", c.display(&pt), disp),
                    format!("{} was started (seq {}) although its dependency {} failed at seq {} and has not succeeded since", c.display(&pt), p.spawn_seq, disp, fseq),
                );
            }
        }
    }
    // "targets that do not depend on the failed one are unaffected": at the final idle point
    // every closure target outside the failed targets' dependents is up to date
    if let (Some(sg), Some(rt)) = (sig, ret) {
        if sg < rt && r.exit_kind() == "main-returned" {
            let failed_set: BTreeSet<Tid> = failed.iter().map(|f| f.0.clone()).collect();
            for t in &c.clo {
                let affected = failed_set.contains(t) || model::transitive_effective_deps(sc, t).iter().any(|d| failed_set.contains(d));
                if affected {
                    continue;
                }
                if let Some(v) = target_up_to_date(sc, s, &c, t, sg) {
                    return viol("independent-target-affected-by-failure", format!("{} failed={}", v.witness, failed_set.iter().map(|f| c.display(f)).collect::<Vec<_>>().join(",")), format!("a target that does not depend on the failed one: {}", v.message));
                }
            }
        }
    }
    // "its dependents stay blocked": a dependent that was told the failed target (or something
    // depending on it) is out of date must not decide a new execution before it is told otherwise
    if let Some(v) = oracle_c01b(sc, r) {
        let failed_disp: Vec<String> = failed.iter().map(|f| c.display(&f.0)).collect();
        let dep = v.witness.split(' ').find_map(|t| t.strip_prefix("dep=")).unwrap_or("").to_string();
        let dep_tid = sc.all_targets().into_iter().find(|t| sc.display(t.0, &t.1) == dep);
        let blocked_by_failure = failed_disp.contains(&dep)
            || dep_tid.map(|d| model::transitive_effective_deps(sc, &d).iter().any(|x| failed_disp.contains(&sc.display(x.0, &x.1)))).unwrap_or(false);
        // a target behind the failure that has told its requesters it is ready and then learns it
        // is out of date must tell them so: otherwise they are not blocked
        let announcer = if v.oracle == "out-of-date-not-announced" { v.witness.split(' ').find_map(|t| t.strip_prefix("target=")).map(String::from) } else { None };
        let announcer_behind_failure = announcer
            .and_then(|a| sc.all_targets().into_iter().find(|t| sc.display(t.0, &t.1) == a))
            .map(|a| model::transitive_effective_deps(sc, &a).iter().any(|x| failed_disp.contains(&sc.display(x.0, &x.1))))
            .unwrap_or(false);
        if blocked_by_failure || announcer_behind_failure {
            return viol("dependent-of-failed-not-blocked", v.witness.clone(), format!("after the failure of [{}]: {}", failed_disp.join(","), v.message));
        }
    }
    // "its dependents stay blocked", for a target whose RE-build failed (it had been ready
    // before): once zinoma has gone idle after the failure every notice has been delivered and
    // acted upon, so whatever depends on the failed target, directly or transitively, and is
    // started after that idle point (its own input was edited) was not blocked. (Evaluated last:
    // the one way this is known to happen is a recorded finding.)
    for (t, fseq) in &failed {
        let ready_seqs = |x: &Tid| -> Vec<u64> {
            if model::kind_of(sc, x) == Some(Kind::Service) {
                c.starts(x)
            } else {
                c.build_ready_seqs(x)
            }
        };
        if !ready_seqs(t).iter().any(|&s| s < *fseq) {
            continue;
        }
        // the failure must be the target's latest word: no later start, success or failure
        if c.starts(t).iter().any(|&s| s > *fseq) || failed.iter().any(|(t2, f2)| t2 == t && f2 > fseq) {
            continue;
        }
        let idle = match r.events.iter().find(|e| e.kind == "quiescence" && e.seq > *fseq) {
            Some(e) => e.seq,
            None => continue,
        };
        for p in &r.procs {
            if (p.kind != "build" && p.kind != "service") || p.spawn_seq < idle || sig.map(|s| p.spawn_seq > s).unwrap_or(false) {
                continue;
            }
            let pt = match tid_of_sim_id(sc, &p.id) {
                Some(x) => x,
                None => continue,
            };
            if !model::transitive_effective_deps(sc, &pt).contains(t) {
                continue;
            }
            // does a path exist along which zinoma's actors pass the notice on? A build that
            // learns that a SERVICE it depends on is out of date blocks itself and tells nobody.
            fn passes(sc: &Scenario, from: &Tid, to: &Tid, first: bool, seen: &mut BTreeSet<Tid>) -> bool {
                if from == to {
                    return true;
                }
                if !seen.insert(from.clone()) {
                    return false;
                }
                for d in model::effective_deps(sc, from) {
                    let stops = !first && model::kind_of(sc, from) == Some(Kind::Build) && model::kind_of(sc, &d) == Some(Kind::Service);
                    if !stops && passes(sc, &d, to, false, seen) {
                        return true;
                    }
                }
                false
            }
            let handled = passes(sc, &pt, t, true, &mut BTreeSet::new());
            return viol(
                "dependent-of-failed-started-after-idle",
                format!("target={} failed-dep={} notice-path={}", c.display(&pt), c.display(t), if handled { "exists" } else { "none(build-above-service)" }),
                format!(
                    "the rebuild of {} failed at seq {}, zinoma went idle at seq {}, and {} - which depends on it{} - was started afterwards (seq {}): it was not blocked",
                    c.display(t),
                    fseq,
                    idle,
                    c.display(&pt),
                    if handled { "" } else { " only through a build that depends on a service" },
                    p.spawn_seq
                ),
            );
        }
    }
    None
}

// ------------------------------------------------------------------ C06

pub struct C06;
impl Property for C06 {
    fn id(&self) -> &'static str {
        "C06"
    }
    fn cases(&self, tier: &str) -> u64 {
        if tier == "quick" {
            3_000
        } else {
            80_000
        }
    }
    fn rule(&self) -> &'static str {
        "one case = generated project + optional priming run (populated vs clean tree) + a --watch session whose plan holds 1-5 bursts of edits to declared inputs that existed at start (in-place write, append, touch, create/delete/rename inside watched directories), each gated by the scheduler: at an idle point, while a chosen target's build (first, second or any) is running, or right after the previous burst; then changes stop, the run continues to the next idle point and the signal is delivered. Virtual scripts snapshot their declared inputs when they start and stamp their outputs with that snapshot. Oracle at the final idle point: zinoma still alive; every closure build's outputs equal the stamp of the FINAL input contents (or, without outputs, its last successful run read the final contents); every closure service is running an instance started from the final contents. distinct_nontrivial = distinct order hashes among sessions in which at least one edit was applied"
    }
    fn assumptions(&self) -> Vec<&'static str> {
        vec![
            "virtual inotify: per-watcher FIFO delivery of the path lists notify 6.1.1's inotify back end produces (2 events for an in-place write, 3 for a create, From/To/Both for a rename); delivery instants chosen by the scheduler",
            "edits never restore a file's mtime (content change with identical mtime is indistinguishable by design of the mtime-or-hash rule)",
        ]
    }
    fn required_probes(&self) -> Vec<&'static str> {
        vec!["change-applied-during-a-build", "try_send-slot-already-full"]
    }
    fn generate(&self, rng: &mut Rng, _case: u64) -> Scenario {
        // a fifth of the sessions also have a build that fails once (by occurrence, whatever it
        // read): a change made during the failing run must still be acted upon
        gen_watch(rng, &WatchOpts { fail_pct: 20, ..Default::default() })
    }
    fn evaluate(&self, sc: &Scenario, root: &Path, stats: &mut Stats) -> Option<Violation> {
        let s = run_session(sc, root, stats, |c| c.r.events.iter().any(|e| e.kind == "fs-apply"))?;
        if let Some(v) = oracle_c06(sc, &s) {
            return Some(v);
        }
        // "... by an execution that started after its dependencies finished their own re-run":
        // seen from the messages, no execution may be decided while a dependency's latest word
        // is that it is out of date (the same exact clause as C01(b))
        super::watch::oracle_c01b(sc, &s.r).map(|v| Violation { oracle: format!("re-run-before-dependencies-finished:{}", v.oracle), witness: v.witness, message: v.message })
    }
}

// ------------------------------------------------------------------ C16

/// The documented relevance rule, re-implemented: is a change to `path` (relative to the case
/// root) a change to a declared input of `t`?
fn relevant_to(sc: &Scenario, t: &Tid, path: &str) -> bool {
    let tt = match sc.target(t.0, &t.1) {
        Some(x) => x,
        None => return false,
    };
    let pdir = &sc.projects[t.0].dir;
    let p = simrt::vfs::decode_path(path);
    let name = p.file_name().map(|n| n.to_string_lossy().into_owned()).unwrap_or_default();
    if name.ends_with('~') || (name.starts_with('.') && (name.ends_with(".swp") || name.ends_with(".swx"))) {
        return false;
    }
    if p.components().any(|c| c.as_os_str() == ".zinoma") {
        return false;
    }
    let mut all: Vec<(Vec<String>, Option<Vec<String>>, String)> = vec![];
    for r in &tt.input {
        if let Res::Paths { paths, extensions } = r {
            all.push((paths.clone(), extensions.clone(), pdir.clone()));
        }
    }
    for d in &tt.deps {
        if d.via_output {
            if let Some(prod) = sc.target(d.project, &d.target) {
                for r in &prod.output {
                    if let Res::Paths { paths, extensions } = r {
                        all.push((paths.clone(), extensions.clone(), sc.projects[d.project].dir.clone()));
                    }
                }
            }
        }
    }
    for (paths, exts, dir) in all {
        let exts: Vec<String> = exts.map(|e| e.into_iter().filter(|x| !x.is_empty()).map(|x| if x.starts_with('.') { x } else { format!(".{}", x) }).collect()).unwrap_or_default();
        for rp in paths {
            // only paths that existed when watching began are watched at all (the kernel resolves
            // `a/up/..` component by component: `a/up` has to exist)
            let base = match resolve_in_scenario(sc, &format!("{}/{}", dir, rp)) {
                Some(b) => b,
                None => continue,
            };
            if p == base || p.starts_with(&base) {
                if exts.is_empty() || exts.iter().any(|e| name.ends_with(e.as_str())) {
                    return true;
                }
            }
        }
    }
    false
}

/// Resolves `declared` (relative to the case root) the way the kernel does, against the
/// scenario's initial tree: component by component, following symbolic links as they are met, so
/// that `link/..` is the parent of what the link points to, not of the link. None: some component
/// did not exist when the session began (such a path is not watched at all).
fn resolve_in_scenario(sc: &Scenario, declared: &str) -> Option<PathBuf> {
    let in_tree = |cur: &Path| -> bool {
        let c = cur.to_string_lossy().into_owned();
        c.is_empty() || sc.projects.iter().any(|p| p.dir == c || p.dir.starts_with(&format!("{}/", c))) || sc.files.iter().any(|f| f.path == c || f.path.starts_with(&format!("{}/", c)))
    };
    let link_at = |cur: &Path| -> Option<String> {
        let c = cur.to_string_lossy().into_owned();
        sc.files.iter().find_map(|f| match &f.kind {
            FileKind::Symlink(t) if f.path == c => Some(t.clone()),
            _ => None,
        })
    };
    let mut cur = PathBuf::new();
    let mut todo: Vec<String> = Path::new(declared).components().rev().map(|c| c.as_os_str().to_string_lossy().into_owned()).collect();
    let mut hops = 0;
    while let Some(comp) = todo.pop() {
        match comp.as_str() {
            "." | "/" => {}
            ".." => {
                cur.pop();
            }
            name => {
                cur.push(name);
                if let Some(target) = link_at(&cur) {
                    hops += 1;
                    if hops > 16 {
                        return None;
                    }
                    cur.pop();
                    for c in Path::new(&target).components().rev() {
                        todo.push(c.as_os_str().to_string_lossy().into_owned());
                    }
                    continue;
                }
                if !in_tree(&cur) {
                    return None;
                }
            }
        }
    }
    Some(cur)
}

fn op_paths(op: &FsOp) -> Vec<String> {
    match op {
        FsOp::Write { path, .. } | FsOp::Append { path, .. } | FsOp::Touch { path } | FsOp::WriteKeepMtime { path, .. } | FsOp::WriteOlder { path, .. } | FsOp::WriteAncient { path, .. } | FsOp::WriteMmap { path, .. } | FsOp::Create { path, .. } | FsOp::Delete { path } => vec![path.clone()],
        FsOp::Rename { from, to } => vec![from.clone(), to.clone()],
        FsOp::SetVar { .. } => vec![],
    }
}

pub struct C16;

const HOSTILE: [&str; 8] = ["bad\\xff.c", "new\\x0aline.c", "...", "sp ace.c", ".c", "caf\\xc3\\xa9.c", "\\xfe\\xfe", "tab\\x09.h"];

impl Property for C16 {
    fn id(&self) -> &'static str {
        "C16"
    }
    fn cases(&self, tier: &str) -> u64 {
        if tier == "quick" {
            3_000
        } else {
            80_000
        }
    }
    fn rule(&self) -> &'static str {
        "one case = project whose build targets watch directories (with and without extension filters; one target may watch the whole project directory, so zinoma's own .zinoma writes are seen by the watcher) + a --watch session whose bursts are applied one per idle point: irrelevant changes (other extensions, anything under .zinoma, `x~`, `.x.swp`, `.x.swx`), hostile names (invalid UTF-8, newline, only dots, a name equal to an extension), relevant changes; create / in-place modify / rename / delete. Oracle per burst, using the documented relevance rule re-implemented in the driver: a burst relevant to no target is followed by no script start and no skip evaluation before the next idle point; a burst relevant to T is followed by an evaluation of T (watcher still alive, whatever names were seen before); the session becomes idle (no rebuild loop). Also generated: directories declared as `<dir>/up/..` or through a link (`jump/..`), touches of watched directories (neutral for the relevance clauses), names that merely contain `.zinoma`, a path-less rescan event after a kernel queue overflow (fault notify.rescan), a first run that fails while one of its inputs is saved again, a second files resource with a filter of its own and files carrying the extension of the other resource, a target that writes generated sources into its own watched directory. distinct_nontrivial = distinct order hashes among sessions that applied at least one irrelevant or hostile change"
    }
    fn assumptions(&self) -> Vec<&'static str> {
        vec!["a panic inside the notification callback kills that watcher for good, as it kills the real `notify-rs inotify loop` thread"]
    }
    fn required_probes(&self) -> Vec<&'static str> {
        vec!["own-state-write-seen-by-watcher"]
    }
    fn generate(&self, rng: &mut Rng, _case: u64) -> Scenario {
        let mut files = vec![];
        let mut proj = Project { dir: "p0".into(), name: if rng.chance(30) { Some("root".into()) } else { None }, imports: vec![], targets: vec![], raw_yaml: None, import_paths: Default::default() };
        let n = rng.range(1, 3);
        for i in 0..n {
            let name = format!("t{}", i);
            let mut t = Target::new(&name, Kind::Build);
            let d = format!("src/{}", name);
            for f in ["a.c", "b.h", "notes.md", "sub/c.c"].iter().take(rng.range(2, 4)) {
                files.push(FileSpec { path: format!("p0/{}/{}", d, f), kind: FileKind::File(format!("{} {} v0\n", name, f)) });
            }
            files.push(FileSpec { path: format!("p0/{}/.zinoma/inner.c", d), kind: FileKind::File("inner\n".into()) });
            if rng.chance(30) {
                // `.zinoma` is a directory NAME: a file or directory whose name merely contains
                // that text is an ordinary input
                files.push(FileSpec { path: format!("p0/{}/deploy.zinoma.c", d), kind: FileKind::File(format!("{} deploy v0\n", name)) });
                files.push(FileSpec { path: format!("p0/{}/site.zinoma/page.c", d), kind: FileKind::File(format!("{} page v0\n", name)) });
            }
            let ext = match rng.weighted(&[45, 35, 20]) {
                0 => None,
                1 => Some(vec!["c".to_string(), ".h".to_string()]),
                _ => Some(vec![".c".to_string()]),
            };
            // every eighth target names its directory through a path ending in `..`: notify reports
            // events under the path as given, and an event on the directory itself (touch, chmod)
            // carries exactly that path - which has no final component
            let d = match rng.weighted(&[78, 12, 10]) {
                1 => {
                    files.push(FileSpec { path: format!("p0/{}/up", d), kind: FileKind::Dir });
                    format!("{}/up/..", d)
                }
                2 => {
                    // through a symbolic link and back up: `jump/..` is the parent of what the
                    // link points to (the kernel's reading), not the directory holding the link
                    files.push(FileSpec { path: format!("p0/{}/up", d), kind: FileKind::Dir });
                    files.push(FileSpec { path: format!("p0/jump_{}", name), kind: FileKind::Symlink(format!("{}/up", d)) });
                    if rng.chance(50) {
                        format!("jump_{}/..", name)
                    } else {
                        format!("jump_{}/../../{}", name, name)
                    }
                }
                _ => d,
            };
            if rng.chance(25) {
                // the same directory declared twice with different filters
                t.input.push(Res::Paths { paths: vec![d.clone()], extensions: Some(vec!["c".to_string()]) });
                t.input.push(Res::Paths { paths: vec![d], extensions: Some(vec![".h".to_string()]) });
            } else if rng.chance(30) {
                // paths that do not exist when watching begins, listed beside the one that does
                let mut paths = vec![format!("gen/{}-a", name), d, format!("gen/{}-b", name), format!("gen/{}-c", name)];
                rng.shuffle(&mut paths);
                t.input.push(Res::Paths { paths, extensions: ext });
            } else {
                t.input.push(Res::Paths { paths: vec![d], extensions: ext });
            }
            if rng.chance(60) {
                let out = format!("out/{}.out", name);
                t.output.push(Res::Paths { paths: vec![out.clone()], extensions: None });
                t.writes.push(out);
            }
            if rng.chance(12) && t.input.iter().all(|r| matches!(r, Res::Paths { paths, .. } if paths.contains(&format!("src/{}", name)))) {
                // generated sources written next to the hand-written ones, inside the very
                // directory the target watches: its own output must not start it again for ever
                // (only where input and output spell that directory the same way: zinoma
                // identifies files by their path as declared, see DESIGN.md section 9, F14)
                t.output.push(Res::Paths { paths: vec![format!("src/{}/built", name)], extensions: None });
                t.writes.push(format!("src/{}/built/gen.c", name));
            }
            if simrt::stamp::fnv(simrt::stamp::FNV_INIT, format!("docs-{}-{}", name, files.len()).as_bytes()) % 3 == 0 {
                // a second resource somewhere else with a filter of its own: a file carrying the
                // extension of the OTHER resource is no input of this target
                files.push(FileSpec { path: format!("p0/docs/{}/guide.md", name), kind: FileKind::File(format!("{} guide v0\n", name)) });
                t.input.push(Res::Paths { paths: vec![format!("docs/{}", name)], extensions: Some(vec!["md".to_string()]) });
            }
            if i > 0 && rng.chance(40) {
                t.deps.push(DepRef { project: 0, target: format!("t{}", i - 1), via_dep: true, via_output: false, qualified: false });
            }
            proj.targets.push(t);
        }
        if rng.chance(35) {
            // watches the whole project directory: sees zinoma's own state writes and other
            // targets' outputs; has no output of its own
            let mut t = Target::new("lint", Kind::Build);
            t.input.push(Res::Paths { paths: vec![".".into()], extensions: Some(vec!["c".into()]) });
            proj.targets.push(t);
        }
        files.push(FileSpec { path: "p0/out".into(), kind: FileKind::Dir });
        let mut sc = Scenario { focus: None, label: "watch-relevance".into(), projects: vec![proj], files, vars: BTreeMap::new(), steps: vec![] };
        let all: Vec<String> = sc.projects[0].targets.iter().map(|t| t.name.clone()).collect();
        // a fifth of the sessions: the very first run of one target fails, and one of its inputs is
        // saved again while that run is in progress (the user fixing it) - that change counts
        let during_fail = rng.chance(20);
        if !during_fail && rng.chance(50) {
            let mut inv = plain_invocation(rng, &sc, 0, all.clone());
            inv.plan.strategy = Strategy::Fifo;
            sc.steps.push(Step::Invoke(inv));
        }
        let mut wargs = vec!["--watch".to_string()];
        wargs.extend(all);
        let mut inv = plain_invocation(rng, &sc, 0, wargs);
        inv.plan.events.clear();
        if during_fail {
            let ti = rng.below(n);
            let id = sc.sim_id(0, &format!("t{}", ti));
            inv.plan.faults.push(simrt::plan::Fault { site: format!("proc.exit:{}", id), occurrence: 1, kind: gen::fail_exit(rng) });
            inv.plan.events.push(PlanEvent { id: "during-failing-run".into(), kind: PlanEventKind::Fs { ops: vec![FsOp::Write { path: format!("p0/src/t{}/a.c", ti), content: "saved again while the failing run was in progress\n".into() }] }, gate: Gate::Running { id, nth: 1 } });
        }
        let nb = rng.range(2, 7);
        let mut dirs: Vec<String> = sc.projects[0].targets.iter().filter(|t| t.name != "lint").map(|t| format!("p0/src/{}", t.name)).collect();
        let docs: Vec<String> = sc.files.iter().filter(|f| f.path.starts_with("p0/docs/") && f.path.ends_with("/guide.md")).map(|f| f.path.trim_end_matches("/guide.md").to_string()).collect();
        dirs.extend(docs);
        let mut existing: Vec<String> = sc.files.iter().filter(|f| matches!(f.kind, FileKind::File(_)) && !f.path.contains("/.zinoma/")).map(|f| f.path.clone()).collect();
        let look_alikes: Vec<String> = existing.iter().filter(|f| f.contains(".zinoma")).cloned().collect();
        existing.extend(look_alikes.clone());
        existing.extend(look_alikes);
        let mut created: Vec<String> = vec![];
        let writes_into_own_input = sc.projects[0].targets.iter().any(|t| t.writes.iter().any(|w| w.contains("/built/")));
        for b in 0..nb {
            let d = rng.pick(&dirs).clone();
            let sub = if rng.chance(25) { format!("{}/sub", d) } else { d.clone() };
            let sub = if existing.iter().any(|f| f.starts_with(&format!("{}/", sub))) { sub } else { d.clone() };
            let op = match rng.weighted(&[22, 14, 10, 12, 22, 10, 10, 8]) {
                7 => FsOp::Touch { path: if rng.chance(70) { d.clone() } else { format!("{}/sub", d) } },
                0 => {
                    let name = *rng.pick(&["x~", ".a.c.swp", ".b.h.swx", "readme.txt", "core", "Makefile", "y.o", "cross.md", "cross.c", "cross.h"]);
                    let p = format!("{}/{}", sub, name);
                    created.push(p.clone());
                    FsOp::Create { path: p, content: format!("irrelevant {}\n", b) }
                }
                1 => {
                    let p = format!("{}/.zinoma/z{}.c", d, b);
                    created.push(p.clone());
                    FsOp::Create { path: p, content: "under work dir\n".into() }
                }
                2 => FsOp::Write { path: format!("{}/.zinoma/inner.c", d), content: format!("inner {}\n", b) },
                3 => {
                    // (a name that is not valid UTF-8 makes the record of the target
                    // unserialisable: it is rebuilt on every evaluation, by design; for a target
                    // that also writes into its own watched directory that means for ever -
                    // DESIGN.md section 12 - so such sessions get the other hostile names only)
                    let name = if writes_into_own_input { *rng.pick(&["new\\x0aline.c", "...", "sp ace.c", ".c", "caf\\xc3\\xa9.c", "tab\\x09.h"]) } else { *rng.pick(&HOSTILE) };
                    let p = format!("{}/{}", sub, name);
                    created.push(p.clone());
                    FsOp::Create { path: p, content: format!("hostile {}\n", b) }
                }
                4 => {
                    let f = rng.pick(&existing).clone();
                    if rng.chance(20) {
                        FsOp::WriteMmap { path: f, content: format!("m{}", b) }
                    } else {
                        FsOp::Write { path: f, content: format!("relevant edit {}\n", b) }
                    }
                }
                5 => {
                    if created.is_empty() {
                        FsOp::Touch { path: rng.pick(&existing).clone() }
                    } else {
                        let f = created.remove(rng.below(created.len()));
                        if rng.chance(50) {
                            FsOp::Delete { path: f }
                        } else {
                            let to = format!("{}/renamed{}{}", f.rsplit_once('/').map(|x| x.0).unwrap_or(""), b, if rng.chance(50) { ".c" } else { "~" });
                            created.push(to.clone());
                            FsOp::Rename { from: f, to }
                        }
                    }
                }
                _ => FsOp::Create { path: format!("{}/fresh{}.c", sub, b), content: format!("fresh {}\n", b) },
            };
            inv.plan.events.push(PlanEvent { id: format!("e{}", b), kind: PlanEventKind::Fs { ops: vec![op] }, gate: Gate::Quiescence(b as u32 + 1) });
        }
        if rng.chance(15) {
            // the kernel's queue overflows once during the session (a burst of thousands of files
            // nobody declared): notify reports a path-less event, later changes still count
            inv.plan.faults.push(simrt::plan::Fault { site: "notify.rescan".into(), occurrence: rng.range(1, 6) as u32, kind: "overflow".into() });
        }
        // a last, certainly relevant, in-place change to a file that existed at start
        let f = rng.pick(&existing).clone();
        inv.plan.events.push(PlanEvent { id: "final".into(), kind: PlanEventKind::Fs { ops: vec![FsOp::Write { path: f, content: "final relevant edit\n".into() }] }, gate: Gate::Quiescence(nb as u32 + 1) });
        inv.plan.events.push(gen::signal_at_idle());
        inv.plan.knobs.step_budget = 300_000;
        sc.steps.push(Step::Invoke(inv));
        sc
    }
    fn evaluate(&self, sc: &Scenario, root: &Path, stats: &mut Stats) -> Option<Violation> {
        let s = run_session(sc, root, stats, |c| c.inv.plan.events.iter().any(|e| matches!(&e.kind, PlanEventKind::Fs { ops } if ops.iter().any(|o| { let p = op_paths(o); p.iter().any(|x| x.contains("~") || x.contains(".sw") || x.contains("\\x") || x.contains("/.zinoma/")) }))))?;
        let r = &s.r;
        let c = InvCtx::new(sc, &s.inv, r);
        if let Some(a) = r.abnormal() {
            return viol("abnormal-exit", a.clone(), format!("zinoma ended abnormally ({}) in watch mode", a));
        }
        if r.exit_kind() == "budget" {
            return viol("rebuild-loop", "step-budget".into(), "the watch session never became idle again: targets keep being re-run without any outside change".into());
        }
        if !r.main_returned() {
            return None;
        }
        if let (Some(sg), Some(rt)) = (r.seq_of("signal"), r.seq_of("main-returned")) {
            if rt < sg {
                return None;
            }
        } else {
            return None; // start-up failure is C06's matter
        }
        // segments between idle points
        let quiesc: Vec<u64> = r.events.iter().filter(|e| e.kind == "quiescence").map(|e| e.seq).collect();
        let failures = super::oneshot::observed_failures(&c);
        let markers: Vec<&crate::run::Ev> = r.events.iter().filter(|e| e.kind == "plan-event").collect();
        for pe in &s.inv.plan.events {
            let ops = match &pe.kind {
                PlanEventKind::Fs { ops } => ops,
                _ => continue,
            };
            // the operations of this plan event, wherever in the session it fired
            let fired = match markers.iter().find(|m| m.rest.trim() == pe.id) {
                Some(m) => m.seq,
                None => continue,
            };
            let until = markers.iter().map(|m| m.seq).find(|&q| q > fired).unwrap_or(u64::MAX);
            let applies: Vec<&crate::run::Ev> = r.events.iter().filter(|e| e.kind == "fs-apply" && e.seq > fired && e.seq < until).collect();
            let first = match applies.first() {
                Some(e) => e.seq,
                None => continue,
            };
            let effective = applies.iter().any(|e| e.field("events").map(|n| n != "0").unwrap_or(false));
            let next_idle = quiesc.iter().find(|&&q| q > first).copied().unwrap_or(u64::MAX);
            // a metadata change of a directory is not a change to a file: it may or may not be
            // looked at, but it must not stop later changes from being reported (next bursts)
            if ops.iter().all(|o| matches!(o, FsOp::Touch { path } if s.case.root.join(simrt::vfs::decode_path(path)).is_dir())) {
                continue;
            }
            let mut rel_targets: BTreeSet<Tid> = BTreeSet::new();
            for op in ops {
                for p in op_paths(op) {
                    for t in &c.clo {
                        if model::kind_of(sc, t) != Some(Kind::Aggregate) && relevant_to(sc, t, &p) {
                            rel_targets.insert(t.clone());
                        }
                    }
                }
            }
            let evaluated: BTreeSet<Tid> = c
                .clo
                .iter()
                .filter(|t| c.starts(t).iter().any(|&s| s > first && s < next_idle) || r.skips(&c.display(t)).iter().any(|&s| s > first && s < next_idle))
                .cloned()
                .collect();
            if rel_targets.is_empty() {
                if let Some(t) = evaluated.iter().next() {
                    return viol(
                        "irrelevant-change-triggered-run",
                        format!("event={} target={} op={}", pe.id, c.display(t), serde_json::to_string(&ops[0]).unwrap_or_default().replace(' ', "")),
                        format!("{} was evaluated after a change confined to files outside every declared input ({})", c.display(t), serde_json::to_string(ops).unwrap_or_default()),
                    );
                }
            } else if effective {
                for t in &rel_targets {
                    // a target behind a dependency that failed and has not succeeded since stays
                    // blocked (C07): its change is acted upon once the dependency is repaired
                    let blocked = model::transitive_effective_deps(sc, t).iter().any(|d| {
                        failures.iter().any(|(ft, fseq)| ft == d && *fseq < next_idle && !c.build_ready_seqs(d).iter().any(|&s| s > *fseq && s < next_idle))
                    });
                    if blocked {
                        continue;
                    }
                    if !evaluated.contains(t) {
                        let dead = r.events.iter().any(|e| e.kind == "watcher-died" && e.seq < next_idle);
                        return viol(
                            "relevant-change-ignored",
                            format!("event={} target={} watcher-dead={}", pe.id, c.display(t), dead),
                            format!("a change to a declared input of {} ({}) was followed by no evaluation of it before zinoma went idle{}", c.display(t), serde_json::to_string(ops).unwrap_or_default(), if dead { "; its watcher had died earlier (panic in the notification callback)" } else { "" }),
                        );
                    }
                }
            }
        }
        None
    }
}

pub fn all() -> Vec<Box<dyn Property>> {
    vec![Box::new(C06), Box::new(C16)]
}
