//! C10: every exit path is prompt and leaves no spawned process behind. Fault enumeration over
//! the instant of the signal / failure, exploration over schedules and graphs.

use super::{harness_error_of, sample_of, InvCtx};
use crate::engine::{Property, Stats, Violation};
use crate::gen::{self, GraphOpts};
use crate::model::{self, Tid};
use crate::prng::Rng;
use crate::run::{run_invocation, RunResult};
use crate::scen::*;
use simrt::plan::{Fault, Gate, PlanEvent, PlanEventKind};
use std::path::Path;

fn viol(oracle: &str, witness: String, message: String) -> Option<Violation> {
    Some(Violation { oracle: oracle.into(), witness, message })
}

pub struct C10;

/// Leak / promptness oracle on one run that was told to stop (signal or failure).
fn oracle_exit(sc: &Scenario, inv: &Invocation, r: &RunResult, tag: &str, expect_error: bool) -> Option<Violation> {
    let c = InvCtx::new(sc, inv, r);
    if let Some(a) = r.abnormal() {
        return viol("abnormal-exit", format!("how={} focus={}", a, tag), format!("[{}] zinoma ended abnormally ({})", tag, a));
    }
    let running_left = |r: &RunResult| -> Vec<String> {
        r.footer
            .as_ref()
            .map(|f| f.procs.iter().filter(|p| (p.kind == "build" || p.kind == "service") && (p.state == "running" || (p.state == "killed" && !p.reaped))).map(|p| format!("{}:{}:{}", p.id, p.state, if p.reaped { "reaped" } else { "unreaped" })).collect())
            .unwrap_or_default()
    };
    match r.exit_kind() {
        "stall" => {
            let pend = r.footer.as_ref().map(|f| f.pending.clone()).unwrap_or_default();
            let blocked_full = pend.iter().any(|p| p.contains("(full)"));
            return viol(
                "no-exit-after-stop-request",
                format!("kind={} blocked-on-full-queue={} focus={}", tag.split('@').next().unwrap_or(""), blocked_full, tag),
                format!("[{}] zinoma was told to stop but never exits: with every script frozen it waits for something that will not come. Still running: {:?}. Blocked tasks: {:?}", tag, running_left(r), pend),
            );
        }
        "budget" => return viol("no-exit-after-stop-request", format!("kind=budget focus={}", tag), format!("[{}] step budget exhausted after the stop request", tag)),
        "main-returned" => {}
        "killed-by-signal" => {
            let left = running_left(r);
            if !left.is_empty() {
                return viol(
                    "termination-signal-not-handled",
                    format!("procs={} focus={}", left.iter().map(|s| s.split(':').next().unwrap_or("")).collect::<Vec<_>>().join(","), tag),
                    format!("[{}] SIGTERM ended zinoma by its default action (no handler covers it): the shells it had spawned keep running: {:?}", tag, left),
                );
            }
            return None;
        }
        _ => return None,
    }
    let left = running_left(r);
    if !left.is_empty() {
        return viol(
            "process-left-behind",
            format!("procs={} focus={}", left.iter().map(|s| s.split(':').next().unwrap_or("")).collect::<Vec<_>>().join(","), tag),
            format!("[{}] zinoma returned while shells it spawned were still running or not reaped: {:?}", tag, left),
        );
    }
    let failed = !super::oneshot::observed_failures(&c).is_empty() || r.events.iter().any(|e| e.kind == "watch-error" && e.rest.contains("injected"));
    if expect_error && failed && r.code == 0 {
        let sig_first = r.seq_of("signal").map(|s| super::oneshot::observed_failures(&c).iter().all(|f| s < f.1)).unwrap_or(false);
        if !sig_first {
            return viol("zero-exit-after-failure", format!("focus={}", tag), format!("[{}] a target failed but the exit status is 0", tag));
        }
    }
    if !failed && r.code != 0 {
        return viol("nonzero-exit-without-failure", format!("code={} focus={}", r.code, tag), format!("[{}] exit status {} although no target failed: {}", tag, r.code, r.stderr.lines().last().unwrap_or("")));
    }
    None
}

impl Property for C10 {
    fn id(&self) -> &'static str {
        "C10"
    }
    fn level(&self) -> &'static str {
        "fault_enumeration"
    }
    fn cases(&self, tier: &str) -> u64 {
        if tier == "quick" {
            160
        } else {
            6_000
        }
    }
    fn rule(&self) -> &'static str {
        "one case = generated project (builds, services, aggregates; 6% wide fan-in/fan-out beyond 2x the queue capacity) in one-shot or --watch mode + a seeded schedule. The run is first executed without interference (R0: N scheduling decisions), then ENUMERATED: the termination signal delivered at decision index k for every k in 1..N (quick tier: at most 96 evenly spaced k, 24 on graphs with more than 3000 decisions; thorough: up to 2000), each build that ran made to fail, and (watch mode) the kernel refusing the n-th file watch; a delivered signal is the only one of its run; from the instant of the signal (or failure) every build/service script is frozen - it ends only if killed. Oracle: main returns (a stall = zinoma waiting for a script or a message that will never come), no build/service shell is left running or killed-but-unreaped, exit status 0 unless a target failed. distinct_nontrivial = distinct (order hash, k) among runs where the stop request arrived while at least one script was running"
    }
    fn assumptions(&self) -> Vec<&'static str> {
        vec!["promptness is decided without a clock: frozen scripts turn any wait for a script into an exactly detectable stall", "kill() reaches the shell zinoma spawned, as in reality; grandchildren are outside the statement"]
    }
    fn generate(&self, rng: &mut Rng, case_no: u64) -> Scenario {
        // the first eight cases (and every 20th later on) are wide graphs: started first, they overlap with the cheap cases (queues full while the signal arrives)
        let force_wide = case_no < 8 || (case_no > 160 && case_no % 20 == 3);
        let watch = !force_wide && rng.chance(30);
        if watch {
            let mut sc = super::watch::gen_watch(rng, &super::watch::WatchOpts { max_bursts: 2, ..Default::default() });
            sc.label = format!("exit-{}", sc.label);
            return sc;
        }
        let mut sc = gen::gen_graph(rng, &GraphOpts { max_n: 8, big_permille: 30, force_wide, ..Default::default() });
        let args = gen::gen_request(rng, &sc);
        let n: usize = sc.projects[0].targets.len();
        let mut plan = gen::gen_plan(rng, 60 + 40 * n as u64);
        plan.events.push(gen::signal_at_idle());
        let inv = gen::invocation(rng, args, plan);
        sc.steps.push(Step::Invoke(inv));
        sc.label = format!("exit-{}", sc.label);
        sc
    }
    fn narrow(&self, sc: &Scenario, v: &Violation) -> Option<Scenario> {
        let f = v.witness.split(' ').find_map(|t| t.strip_prefix("focus="))?;
        let mut out = sc.clone();
        out.focus = Some(f.to_string());
        Some(out)
    }
    fn evaluate(&self, sc: &Scenario, root: &Path, stats: &mut Stats) -> Option<Violation> {
        let mi = sc.steps.iter().rposition(|s| matches!(s, Step::Invoke(_)))?;
        let main_inv = match &sc.steps[mi] {
            Step::Invoke(i) => i.clone(),
            _ => return None,
        };
        let thorough = std::env::var("ZCHECK_TIER").map(|t| t == "thorough").unwrap_or(false);
        // run the prefix (priming) once per item: cheap enough, keeps every item independent
        let run_with = |inv: &Invocation, stats: &mut Stats, tag: &str| -> Option<RunResult> {
            let mut case = match materialize(sc, root) {
                Ok(c) => c,
                Err(e) => {
                    stats.harness_errors.push(format!("materialize: {}", e));
                    return None;
                }
            };
            let mut idx = 0;
            for st in &sc.steps[..mi] {
                match st {
                    Step::Invoke(p) => {
                        let _ = run_invocation(sc, &mut case, p, &format!("pre{}", idx));
                        idx += 1;
                    }
                    Step::Fs(op) => {
                        let mut clock = case.clock;
                        simrt::vfs::apply_plain(&case.root.clone(), &case.vars_dir(), op, &mut clock);
                        case.clock = clock;
                    }
                    _ => {}
                }
            }
            let r = run_invocation(sc, &mut case, inv, tag);
            Some(r)
        };
        let r0 = run_with(&main_inv, stats, "r0")?;
        stats.absorb_run(&main_inv, &r0, false);
        if let Some(h) = harness_error_of(&r0) {
            if r0.footer.is_none() {
                stats.harness_errors.push(h);
            }
            return None;
        }
        if stats.sample.is_none() {
            let mut s = sample_of(sc, &main_inv, &r0);
            s["enumeration"] = serde_json::json!("signal@k for k in 1..N, fail:<build> for each build that ran; scripts frozen from that instant");
            stats.sample = Some(s);
        }
        // the undisturbed run itself must not leak either
        if r0.main_returned() {
            if let Some(v) = oracle_exit(sc, &main_inv, &r0, "undisturbed", true) {
                return Some(v);
            }
        }
        let n = r0.footer.as_ref().map(|f| f.decisions).unwrap_or(0);
        let choices = r0.footer.as_ref().map(|f| f.choices.clone()).unwrap_or_default();
        let mut ks: Vec<u64> = vec![];
        // wide graphs have tens of thousands of decisions and slow runs: fewer instants there
        let maxk = if thorough { 2_000 } else if n > 3_000 { 24 } else { 96 };
        if n <= maxk {
            ks.extend(1..=n);
        } else {
            for i in 0..maxk {
                ks.push(1 + i * (n - 1) / (maxk - 1));
            }
            ks.dedup();
        }
        let c0 = InvCtx::new(sc, &main_inv, &r0);
        let ran: Vec<Tid> = c0.clo.iter().filter(|t| model::kind_of(sc, t) == Some(Kind::Build) && !c0.starts(t).is_empty()).cloned().collect();
        let mut items: Vec<String> = ks.iter().map(|k| format!("signal@{}", k)).collect();
        for t in &ran {
            items.push(format!("fail@{}", sc.sim_id(t.0, &t.1)));
        }
        // watch mode: the kernel refusing the n-th watch (inotify limit) while shells may already
        // be running is one more way out: error exit, nothing left behind
        let watches = r0.events.iter().filter(|e| e.kind == "watch" || e.kind == "watch-error").count();
        for n in 1..=watches.min(if thorough { 40 } else { 8 }) {
            items.push(format!("watchfail@{}", n));
        }
        if let Some(f) = &sc.focus {
            items.retain(|i| i == f);
        }
        for tag in items {
            stats.enumerated += 1;
            let mut inv = main_inv.clone();
            inv.plan.choices = Some(choices.clone());
            inv.plan.pad_zero = false;
            let is_signal = tag.starts_with("signal@");
            let is_watchfail = tag.starts_with("watchfail@");
            if is_signal {
                let k: u64 = tag[7..].parse().unwrap_or(1);
                // this signal is the only one: if it is not honoured nothing else ends the run
                inv.plan.events.retain(|e| !matches!(e.kind, PlanEventKind::Signal));
                inv.plan.events.insert(0, PlanEvent { id: "sigk".into(), kind: PlanEventKind::Signal, gate: Gate::Step(k) });
                inv.plan.knobs.freeze_on_signal = true;
            } else if is_watchfail {
                let n: u32 = tag[10..].parse().unwrap_or(1);
                inv.plan.faults.push(Fault { site: "notify.watch".into(), occurrence: n, kind: "enospc".into() });
                inv.plan.knobs.freeze_on_signal = true;
            } else {
                inv.plan.faults.push(Fault { site: format!("proc.exit:{}", &tag[5..]), occurrence: 1, kind: "exit=1".into() });
                inv.plan.knobs.freeze_on_failure = true;
                inv.plan.knobs.freeze_on_signal = true;
            }
            let r = match run_with(&inv, stats, "rk") {
                Some(r) => r,
                None => return None,
            };
            let stop_seq = if is_signal { r.seq_of("signal") } else { r.procs.iter().filter_map(|p| p.exit.as_ref().filter(|e| e.1 != 0).map(|e| e.0)).min() };
            let busy = stop_seq.map(|s| r.procs.iter().any(|p| (p.kind == "build" || p.kind == "service") && p.spawn_seq < s && p.exit.as_ref().map(|e| e.0 > s).unwrap_or(true) && p.kill_seq.map(|k| k > s).unwrap_or(true))).unwrap_or(false);
            stats.absorb_run(&inv, &r, false);
            if busy {
                stats.nontrivial.insert(r.order_hash ^ simrt::stamp::fnv(simrt::stamp::FNV_INIT, tag.as_bytes()));
            }
            *stats.faults.entry(if is_signal { "signal-at-decision-index".to_string() } else { "script-failure-with-frozen-siblings".to_string() }).or_insert(0) += 1;
            if harness_error_of(&r).is_some() && r.footer.is_none() {
                continue;
            }
            // in watch mode a failure does not end the run: the later idle-point signal does
            if let Some(v) = oracle_exit(sc, &inv, &r, &tag, !main_inv.args.iter().any(|a| a == "--watch")) {
                return Some(v);
            }
        }
        None
    }
}
