//! Scenario generation (swarm style: everything varies per case).

use crate::prng::Rng;
use crate::scen::*;
use simrt::plan::{Gate, Knobs, Plan, PlanEvent, PlanEventKind, Strategy};
use std::collections::BTreeMap;

#[derive(Clone, Debug)]
pub struct GraphOpts {
    pub max_n: usize,
    pub services: bool,
    pub aggregates: bool,
    pub io: bool,
    pub big_permille: usize,
    pub multi_project: bool,
}

impl Default for GraphOpts {
    fn default() -> Self {
        GraphOpts { max_n: 8, services: true, aggregates: true, io: true, big_permille: 0, multi_project: false }
    }
}

pub const FAMILIES: [&str; 8] = ["chain", "diamond", "fan-in", "fan-out", "forest", "shared-service", "layered", "dep+dependent"];

/// Generates projects, targets and the initial tree (no steps).
pub fn gen_graph(rng: &mut Rng, o: &GraphOpts) -> Scenario {
    let mut family = rng.weighted(&[12, 14, 10, 10, 12, if o.services { 14 } else { 0 }, 20, 8]);
    let mut n = match family {
        1 => rng.range(4, o.max_n.max(4)),
        _ => rng.range(1, o.max_n),
    };
    let mut big = "";
    if o.big_permille > 0 && rng.below(1000) < o.big_permille {
        if rng.chance(50) {
            family = 0;
            n = rng.range(40, 200);
            big = "deep-";
        } else {
            family = if rng.chance(50) { 2 } else { 3 };
            n = rng.range(131, 300);
            big = "wide-";
        }
    }
    // edges: node i depends on a set of lower-numbered nodes
    let mut edges: Vec<Vec<usize>> = vec![vec![]; n];
    match family {
        0 => {
            for i in 1..n {
                edges[i].push(i - 1);
            }
        }
        1 => {
            for i in 1..n - 1 {
                edges[i].push(0);
                edges[n - 1].push(i);
            }
        }
        2 => {
            for i in 0..n.saturating_sub(1) {
                edges[n - 1].push(i);
            }
        }
        3 | 5 => {
            for i in 1..n {
                edges[i].push(0);
            }
        }
        4 => {
            for i in 1..n {
                if rng.chance(70) {
                    let j = rng.below(i);
                    edges[i].push(j);
                }
            }
        }
        7 => {
            // a chain plus shortcuts: unequal path lengths
            for i in 1..n {
                edges[i].push(i - 1);
                if i >= 2 && rng.chance(50) {
                    let j = rng.below(i - 1);
                    edges[i].push(j);
                }
            }
        }
        _ => {
            for i in 1..n {
                for j in 0..i {
                    if rng.chance(if n <= 5 { 45 } else { 25 }) {
                        edges[i].push(j);
                    }
                }
            }
        }
    }
    // kinds
    let mut kinds = vec![Kind::Build; n];
    if big.is_empty() {
        for (i, k) in kinds.iter_mut().enumerate() {
            let w = rng.weighted(&[60, if o.services { 20 } else { 0 }, if o.aggregates { 20 } else { 0 }]);
            *k = match w {
                1 => Kind::Service,
                2 => Kind::Aggregate,
                _ => Kind::Build,
            };
            if family == 5 && i == 0 {
                *k = Kind::Service;
            }
            if family == 5 && i > 0 && *k == Kind::Service && rng.chance(70) {
                *k = Kind::Build;
            }
        }
    }
    let named = rng.chance(40);
    let mut proj = Project { dir: "p0".into(), name: if named { Some("root".into()) } else { None }, imports: vec![], targets: vec![], raw_yaml: None };
    let mut files = vec![];
    for i in 0..n {
        let name = format!("t{}", i);
        let mut t = Target::new(&name, kinds[i]);
        for &j in &edges[i] {
            let dep_kind = kinds[j];
            let mut via_dep = true;
            let mut via_output = false;
            if dep_kind == Kind::Build && kinds[i] != Kind::Aggregate && o.io {
                match rng.weighted(&[50, 30, 20]) {
                    1 => {
                        via_dep = false;
                        via_output = true;
                    }
                    2 => via_output = true,
                    _ => {}
                }
            }
            t.deps.push(DepRef { project: 0, target: format!("t{}", j), via_dep, via_output, qualified: named && rng.chance(25) });
        }
        if o.io && kinds[i] == Kind::Build {
            if rng.chance(70) {
                let src = format!("src/{}.txt", name);
                files.push(FileSpec { path: format!("p0/{}", src), kind: FileKind::File(format!("source of {} v0\n", name)) });
                t.input.push(Res::Paths { paths: vec![src], extensions: None });
            }
            if rng.chance(75) {
                let out = format!("out/{}.out", name);
                t.output.push(Res::Paths { paths: vec![out.clone()], extensions: None });
                t.writes.push(out);
            }
        } else if o.io && kinds[i] == Kind::Service && rng.chance(30) {
            let src = format!("src/{}.txt", name);
            files.push(FileSpec { path: format!("p0/{}", src), kind: FileKind::File(format!("source of {} v0\n", name)) });
            t.input.push(Res::Paths { paths: vec![src], extensions: None });
        }
        proj.targets.push(t);
    }
    files.push(FileSpec { path: "p0/out".into(), kind: FileKind::Dir });
    Scenario { label: format!("{}{}", big, FAMILIES[family]), projects: vec![proj], files, vars: BTreeMap::new(), steps: vec![] }
}

/// A request list over project 0: roots preferred, sometimes a dependency together with its
/// dependent, duplicates, qualified spellings.
pub fn gen_request(rng: &mut Rng, sc: &Scenario) -> Vec<String> {
    let p = &sc.projects[0];
    let n = p.targets.len();
    let mut depended: Vec<bool> = vec![false; n];
    for t in &p.targets {
        for d in &t.deps {
            if let Some(j) = p.targets.iter().position(|x| x.name == d.target) {
                depended[j] = true;
            }
        }
    }
    let roots: Vec<usize> = (0..n).filter(|&i| !depended[i]).collect();
    let mut chosen: Vec<usize> = vec![];
    let k = rng.weighted(&[50, 30, 15, 5]) + 1;
    for _ in 0..k {
        let i = if rng.chance(65) && !roots.is_empty() { *rng.pick(&roots) } else { rng.below(n) };
        chosen.push(i);
    }
    if rng.chance(25) {
        // a dependency together with its dependent
        let i = chosen[0];
        if let Some(d) = p.targets[i].deps.first() {
            if let Some(j) = p.targets.iter().position(|x| x.name == d.target) {
                if rng.chance(50) {
                    chosen.push(j);
                } else {
                    chosen.insert(0, j);
                }
            }
        }
    }
    if !rng.chance(20) {
        // usually no exact duplicates
        let mut seen = vec![];
        chosen.retain(|c| {
            if seen.contains(c) {
                false
            } else {
                seen.push(*c);
                true
            }
        });
    }
    chosen
        .iter()
        .map(|&i| {
            let name = &p.targets[i].name;
            match &p.name {
                Some(pn) if rng.chance(40) => format!("{}::{}", pn, name),
                _ => name.clone(),
            }
        })
        .collect()
}

pub fn gen_strategy(rng: &mut Rng, est_len: u64) -> Strategy {
    match rng.weighted(&[8, 40, 37, 15]) {
        0 => Strategy::Fifo,
        1 => Strategy::Random { preempt_permille: *rng.pick(&[0u32, 50, 200, 500]) },
        2 => Strategy::Pct { d: rng.below(4) as u32, len: est_len.max(50) },
        _ => Strategy::Delay { victim: rng.below(16) as u32, from: rng.below(est_len.max(1) as usize) as u64, len: rng.range(5, 200) as u64, events: rng.chance(30) },
    }
}

pub fn gen_plan(rng: &mut Rng, est_len: u64) -> Plan {
    Plan {
        seed: rng.next(),
        strategy: gen_strategy(rng, est_len),
        knobs: Knobs { select_burn: rng.below(8) as u32, ..Default::default() },
        ..Default::default()
    }
}

pub fn signal_at_idle() -> PlanEvent {
    PlanEvent { id: "sig".into(), kind: PlanEventKind::Signal, gate: Gate::Idle }
}

pub fn invocation(rng: &mut Rng, args: Vec<String>, plan: Plan) -> Invocation {
    Invocation { entry: 0, args, hash_seed: rng.below(1 << 30) as u64 + 1, plan, side: 0 }
}
