//! Scenario generation (swarm style: everything varies per case).

use crate::prng::Rng;
use crate::scen::*;
use simrt::plan::{Gate, Knobs, Plan, PlanEvent, PlanEventKind, Strategy};
use std::collections::BTreeMap;

#[derive(Clone, Debug)]
pub struct GraphOpts {
    pub max_n: usize,
    pub services: bool,
    pub aggregates: bool,
    pub io: bool,
    pub big_permille: usize,
    pub multi_project: bool,
    /// stratification: force a wide (fan-in / fan-out beyond 2x the queue capacity) graph
    pub force_wide: bool,
}

impl Default for GraphOpts {
    fn default() -> Self {
        GraphOpts { max_n: 8, services: true, aggregates: true, io: true, big_permille: 0, multi_project: false, force_wide: false }
    }
}

pub const FAMILIES: [&str; 8] = ["chain", "diamond", "fan-in", "fan-out", "forest", "shared-service", "layered", "dep+dependent"];

/// Generates projects, targets and the initial tree (no steps).
pub fn gen_graph(rng: &mut Rng, o: &GraphOpts) -> Scenario {
    let mut family = rng.weighted(&[12, 14, 10, 10, 12, if o.services { 14 } else { 0 }, 20, 8]);
    let mut n = match family {
        1 => rng.range(4, o.max_n.max(4)),
        _ => rng.range(1, o.max_n),
    };
    let mut big = "";
    if o.force_wide || (o.big_permille > 0 && rng.below(1000) < o.big_permille) {
        if !o.force_wide && rng.chance(50) {
            family = 0;
            n = rng.range(40, 200);
            big = "deep-";
        } else {
            family = if rng.chance(50) { 2 } else { 3 };
            n = rng.range(131, 300);
            big = "wide-";
        }
    }
    // edges: node i depends on a set of lower-numbered nodes
    let mut edges: Vec<Vec<usize>> = vec![vec![]; n];
    match family {
        0 => {
            for i in 1..n {
                edges[i].push(i - 1);
            }
        }
        1 => {
            for i in 1..n - 1 {
                edges[i].push(0);
                edges[n - 1].push(i);
            }
        }
        2 => {
            for i in 0..n.saturating_sub(1) {
                edges[n - 1].push(i);
            }
        }
        3 | 5 => {
            for i in 1..n {
                edges[i].push(0);
            }
        }
        4 => {
            for i in 1..n {
                if rng.chance(70) {
                    let j = rng.below(i);
                    edges[i].push(j);
                }
            }
        }
        7 => {
            // a chain plus shortcuts: unequal path lengths
            for i in 1..n {
                edges[i].push(i - 1);
                if i >= 2 && rng.chance(50) {
                    let j = rng.below(i - 1);
                    edges[i].push(j);
                }
            }
        }
        _ => {
            for i in 1..n {
                for j in 0..i {
                    if rng.chance(if n <= 5 { 45 } else { 25 }) {
                        edges[i].push(j);
                    }
                }
            }
        }
    }
    // kinds
    let mut kinds = vec![Kind::Build; n];
    if big.is_empty() {
        for (i, k) in kinds.iter_mut().enumerate() {
            let w = rng.weighted(&[60, if o.services { 20 } else { 0 }, if o.aggregates { 20 } else { 0 }]);
            *k = match w {
                1 => Kind::Service,
                2 => Kind::Aggregate,
                _ => Kind::Build,
            };
            if family == 5 && i == 0 {
                *k = Kind::Service;
            }
            if family == 5 && i > 0 && *k == Kind::Service && rng.chance(70) {
                *k = Kind::Build;
            }
        }
    }
    let named = rng.chance(40);
    let mut proj = Project { dir: "p0".into(), name: if named { Some("root".into()) } else { None }, imports: vec![], targets: vec![], raw_yaml: None, import_paths: Default::default() };
    let mut files = vec![];
    for i in 0..n {
        let name = format!("t{}", i);
        let mut t = Target::new(&name, kinds[i]);
        for &j in &edges[i] {
            let dep_kind = kinds[j];
            let mut via_dep = true;
            let mut via_output = false;
            if dep_kind == Kind::Build && kinds[i] != Kind::Aggregate && o.io {
                match rng.weighted(&[50, 30, 20]) {
                    1 => {
                        via_dep = false;
                        via_output = true;
                    }
                    2 => via_output = true,
                    _ => {}
                }
            }
            t.deps.push(DepRef { project: 0, target: format!("t{}", j), via_dep, via_output, qualified: named && rng.chance(25) });
        }
        if o.io && kinds[i] == Kind::Build {
            if rng.chance(70) {
                let src = format!("src/{}.txt", name);
                files.push(FileSpec { path: format!("p0/{}", src), kind: FileKind::File(format!("source of {} v0\n", name)) });
                t.input.push(Res::Paths { paths: vec![src], extensions: None });
                if big.is_empty() && rng.chance(12) {
                    // a second `paths` entry: a directory holding a file and a named pipe
                    let d = format!("srcd/{}", name);
                    files.push(FileSpec { path: format!("p0/{}/more.txt", d), kind: FileKind::File(format!("more of {} v0\n", name)) });
                    files.push(FileSpec { path: format!("p0/{}/ctl.pipe", d), kind: FileKind::Fifo });
                    t.input.push(Res::Paths { paths: vec![d], extensions: None });
                }
            }
            if rng.chance(75) {
                let out = format!("out/{}.out", name);
                t.output.push(Res::Paths { paths: vec![out.clone()], extensions: None });
                t.writes.push(out);
            }
        } else if o.io && kinds[i] == Kind::Service && rng.chance(30) {
            let src = format!("src/{}.txt", name);
            files.push(FileSpec { path: format!("p0/{}", src), kind: FileKind::File(format!("source of {} v0\n", name)) });
            t.input.push(Res::Paths { paths: vec![src], extensions: None });
        }
        proj.targets.push(t);
    }
    files.push(FileSpec { path: "p0/out".into(), kind: FileKind::Dir });
    Scenario { focus: None, label: format!("{}{}", big, FAMILIES[family]), projects: vec![proj], files, vars: BTreeMap::new(), steps: vec![] }
}

/// A request list over project 0: roots preferred, sometimes a dependency together with its
/// dependent, duplicates, qualified spellings.
pub fn gen_request(rng: &mut Rng, sc: &Scenario) -> Vec<String> {
    let p = &sc.projects[0];
    let n = p.targets.len();
    let mut depended: Vec<bool> = vec![false; n];
    for t in &p.targets {
        for d in &t.deps {
            if let Some(j) = p.targets.iter().position(|x| x.name == d.target) {
                depended[j] = true;
            }
        }
    }
    let roots: Vec<usize> = (0..n).filter(|&i| !depended[i]).collect();
    let mut chosen: Vec<usize> = vec![];
    let k = rng.weighted(&[50, 30, 15, 5]) + 1;
    for _ in 0..k {
        let i = if rng.chance(65) && !roots.is_empty() { *rng.pick(&roots) } else { rng.below(n) };
        chosen.push(i);
    }
    if rng.chance(25) {
        // a dependency together with its dependent
        let i = chosen[0];
        if let Some(d) = p.targets[i].deps.first() {
            if let Some(j) = p.targets.iter().position(|x| x.name == d.target) {
                if rng.chance(50) {
                    chosen.push(j);
                } else {
                    chosen.insert(0, j);
                }
            }
        }
    }
    if !rng.chance(20) {
        // usually no exact duplicates
        let mut seen = vec![];
        chosen.retain(|c| {
            if seen.contains(c) {
                false
            } else {
                seen.push(*c);
                true
            }
        });
    }
    chosen
        .iter()
        .map(|&i| {
            let name = &p.targets[i].name;
            match &p.name {
                Some(pn) if rng.chance(40) => format!("{}::{}", pn, name),
                _ => name.clone(),
            }
        })
        .collect()
}

pub fn gen_strategy(rng: &mut Rng, est_len: u64) -> Strategy {
    match rng.weighted(&[8, 40, 37, 15]) {
        0 => Strategy::Fifo,
        1 => Strategy::Random { preempt_permille: *rng.pick(&[0u32, 50, 200, 500]) },
        2 => Strategy::Pct { d: rng.below(4) as u32, len: est_len.max(50) },
        _ => Strategy::Delay { victim: rng.below(16) as u32, from: rng.below(est_len.max(1) as usize) as u64, len: rng.range(5, 200) as u64, events: rng.chance(30) },
    }
}

pub fn gen_plan(rng: &mut Rng, est_len: u64) -> Plan {
    Plan {
        seed: rng.next(),
        strategy: gen_strategy(rng, est_len),
        // SIGINT or SIGTERM: both are requests to stop
        knobs: Knobs { select_burn: rng.below(8) as u32, sigterm: rng.chance(40), ..Default::default() },
        ..Default::default()
    }
}

/// How a failing script ends: mostly 1 or 2, sometimes the codes shells use for "killed by
/// SIGINT / SIGTERM" (130, 143) although nobody interrupted anything, 126/127, 255.
pub fn fail_exit(rng: &mut Rng) -> String {
    if rng.chance(10) {
        // not the last command of the script: zinoma relies on `sh -e` to notice
        return format!("midfail={}", rng.range(1, 3));
    }
    let code = match rng.weighted(&[40, 25, 10, 10, 5, 5, 5]) {
        0 => 1,
        1 => 2,
        2 => 130,
        3 => 143,
        4 => 126,
        5 => 127,
        _ => 255,
    };
    format!("exit={}", code)
}

pub fn signal_at_idle() -> PlanEvent {
    PlanEvent { id: "sig".into(), kind: PlanEventKind::Signal, gate: Gate::Idle }
}

pub fn invocation(rng: &mut Rng, args: Vec<String>, plan: Plan) -> Invocation {
    Invocation { entry: 0, args, hash_seed: rng.below(1 << 30) as u64 + 1, plan, side: 0 }
}

// ------------------------------------------------------------------ projects with rich resources

#[derive(Clone, Debug)]
pub struct IoOpts {
    pub multi_project_pct: usize,
    pub max_targets: usize,
    pub cmd_pct: usize,
    /// extra chance that a build's outputs include the command resource `ver` (the same command
    /// text in every project directory)
    pub cmd_output_pct: usize,
    /// chance that a build writes one of its outputs inside its own declared input directory
    /// (only for histories: in watch sessions the version-stamp oracle is not defined for a
    /// script that reads its own previous output)
    pub own_output_inside_input_pct: usize,
    /// length of the common prefix of the "long" target names a project gets now and then
    /// (0 = 150: records still fit in a directory entry; 247 and more: they do not, nothing can
    /// be recorded for such targets and nothing may be written under a shortened name either)
    pub long_name_len: usize,
}

impl Default for IoOpts {
    fn default() -> Self {
        IoOpts { multi_project_pct: 40, max_targets: 5, cmd_pct: 25, cmd_output_pct: 0, own_output_inside_input_pct: 0, long_name_len: 0 }
    }
}

fn big_content(rng: &mut Rng, tag: &str) -> String {
    let n = rng.range(1100, 3000);
    let mut s = format!("{} ", tag);
    while s.len() < n {
        s.push((b'a' + (rng.below(26) as u8)) as char);
    }
    s
}

/// 1–3 projects of build targets (plus the odd service/aggregate) with varied resource
/// declarations: single files, directories with nested files and extension filters, files
/// larger than one read buffer, command resources, outputs as files / filtered directories /
/// commands, `X.output` chains within and across projects, names and relative paths reused
/// across projects. Race-free: a file is written by at most one target and a target's declared
/// inputs are its own sources plus outputs of its producers.
pub fn gen_io(rng: &mut Rng, o: &IoOpts) -> Scenario {
    let np = if rng.chance(o.multi_project_pct) { rng.range(2, 3) } else { 1 };
    let mut projects: Vec<Project> = vec![];
    let pnames = ["root", "lib", "util"];
    let layout = rng.below(3); // 0: siblings, 1: nested, 2: chain of imports
    for pi in 0..np {
        let dir = match (pi, layout) {
            (0, _) => "p0".to_string(),
            (1, 1) => "p0/lib".to_string(),
            (2, 1) => "p0/lib/util".to_string(),
            (i, _) => format!("p{}", i),
        };
        let name = if pi == 0 { if rng.chance(50) { Some(pnames[0].to_string()) } else { None } } else { Some(pnames[pi].to_string()) };
        projects.push(Project { dir, name, imports: vec![], targets: vec![], raw_yaml: None, import_paths: Default::default() });
    }
    // imports: root imports everything it references directly; chain layout: p0 -> p1 -> p2
    if np >= 2 {
        projects[0].imports.push((pnames[1].into(), 1));
    }
    if np == 3 {
        if layout == 2 || rng.chance(50) {
            projects[1].imports.push((pnames[2].into(), 2));
        } else {
            projects[0].imports.push((pnames[2].into(), 2));
        }
        if rng.chance(30) && !projects[0].imports.iter().any(|i| i.1 == 2) {
            projects[0].imports.push((pnames[2].into(), 2));
        }
    }
    if np >= 2 && projects[0].name.is_some() && rng.chance(20) {
        // import cycle: the imported project imports the root back (never referenced through it)
        let n0 = projects[0].name.clone().unwrap();
        projects[1].imports.push((n0, 0));
    }
    // which projects can reference which (through the import relation, transitively loaded)
    let can_ref = |from: usize, to: usize, projects: &Vec<Project>| -> bool { from == to || projects[from].imports.iter().any(|i| i.1 == to) || (from == 0 && projects.iter().any(|_| true) && to > 0) };
    let total = rng.range(2, o.max_targets.max(2));
    let long_names = rng.chance(if o.long_name_len == 0 { 3 } else { 12 });
    let mut files: Vec<FileSpec> = vec![];
    let mut vars = BTreeMap::new();
    // targets are created bottom-up: later targets may consume earlier ones; higher projects
    // consume lower ones. order of creation: from the deepest project to the root.
    let mut created: Vec<(usize, String)> = vec![];
    for k in 0..total {
        let pi = if np == 1 { 0 } else { (np - 1) - (k * np / total).min(np - 1) };
        // reuse target names across projects on purpose; now and then a project's names are
        // long and differ only at the very end
        let name = if long_names { format!("{}_t{}", "l".repeat(if o.long_name_len == 0 { 150 } else { o.long_name_len }), projects[pi].targets.len()) } else { format!("t{}", projects[pi].targets.len()) };
        let kind = match rng.weighted(&[88, 6, 6]) {
            1 => Kind::Service,
            2 => Kind::Aggregate,
            _ => Kind::Build,
        };
        let mut t = Target::new(&name, kind);
        let pdir = projects[pi].dir.clone();
        // dependencies on earlier targets
        let cands: Vec<(usize, String)> = created.iter().filter(|c| can_ref(pi, c.0, &projects)).cloned().collect();
        let ndeps = if cands.is_empty() { 0 } else { rng.weighted(&[30, 45, 20, 5]) };
        let mut chosen: Vec<(usize, String)> = vec![];
        for _ in 0..ndeps {
            let c = rng.pick(&cands).clone();
            if !chosen.contains(&c) {
                chosen.push(c.clone());
            }
            // the same bare name in another project as a second dependency of the same target
            if rng.chance(25) {
                if let Some(twin) = cands.iter().find(|x| x.1 == c.1 && x.0 != c.0) {
                    if !chosen.contains(twin) {
                        chosen.push(twin.clone());
                    }
                }
            }
        }
        for c in chosen {
            let prod_kind = projects[c.0].targets.iter().find(|x| x.name == c.1).map(|x| x.kind).unwrap_or(Kind::Build);
            let (via_dep, via_output) = if prod_kind == Kind::Build && kind != Kind::Aggregate {
                match rng.weighted(&[20, 55, 25]) {
                    0 => (true, false),
                    1 => (false, true),
                    _ => (true, true),
                }
            } else {
                (true, false)
            };
            // cross-project references need the project to be named and imported by `pi`
            if c.0 != pi && !projects[pi].imports.iter().any(|i| i.1 == c.0) {
                let key = projects[c.0].name.clone().unwrap();
                projects[pi].imports.push((key, c.0));
            }
            t.deps.push(DepRef { project: c.0, target: c.1.clone(), via_dep, via_output, qualified: c.0 == pi && projects[pi].name.is_some() && rng.chance(20) });
        }
        if kind == Kind::Build || kind == Kind::Service {
            // own sources
            match rng.weighted(&[30, 30, 15, 25]) {
                0 => {
                    let src = format!("src/{}.txt", name);
                    files.push(FileSpec { path: format!("{}/{}", pdir, src), kind: FileKind::File(format!("{} {} v0\n", pdir, name)) });
                    t.input.push(Res::Paths { paths: vec![src], extensions: None });
                }
                1 => {
                    let d = format!("src/{}", name);
                    for f in ["a.c", "b.h", "notes.md", "sub/c.c", "sub/deep/d.c"].iter().take(rng.range(2, 5)) {
                        files.push(FileSpec { path: format!("{}/{}/{}", pdir, d, f), kind: FileKind::File(format!("{} {} {} v0\n", pdir, name, f)) });
                    }
                    if rng.chance(30) {
                        // awkward names: equal to an extension, multi-dot, hidden, no extension
                        for f in [".c", "x.tar.c", ".hidden.h", "Makefile", "c"].iter().take(rng.range(1, 5)) {
                            files.push(FileSpec { path: format!("{}/{}/{}", pdir, d, f), kind: FileKind::File(format!("{} {} awkward {}\n", pdir, name, f)) });
                        }
                    }
                    if rng.chance(25) {
                        // symbolic links inside a declared directory: to a file (counts as that
                        // file), to a directory (not descended into), dangling (nothing)
                        files.push(FileSpec { path: format!("{}/{}/link.c", pdir, d), kind: FileKind::Symlink("a.c".into()) });
                        files.push(FileSpec { path: format!("{}/{}/linkdir", pdir, d), kind: FileKind::Symlink("sub".into()) });
                        files.push(FileSpec { path: format!("{}/{}/dangling.c", pdir, d), kind: FileKind::Symlink("nowhere.c".into()) });
                        files.push(FileSpec { path: format!("{}/{}/emptydir", pdir, d), kind: FileKind::Dir });
                    }
                    if rng.chance(40) {
                        // a link to a regular file kept OUTSIDE the declared directory (a selected
                        // profile, a file in a content-addressed store): it counts as a file of
                        // the directory, with the content and time stamp of what it points to
                        files.push(FileSpec { path: format!("{}/shared/{}-profile.cfg", pdir, name), kind: FileKind::File(format!("{} {} profile v0\n", pdir, name)) });
                        files.push(FileSpec { path: format!("{}/{}/profile.c", pdir, d), kind: FileKind::Symlink(format!("../../shared/{}-profile.cfg", name)) });
                    }
                    if kind == Kind::Build && rng.chance(o.own_output_inside_input_pct) {
                        // the target writes one of its outputs INSIDE its own declared input
                        // directory (generated sources next to hand-written ones)
                        let out = format!("{}/built/gen.c", d);
                        t.writes.push(out.clone());
                        t.output.push(Res::Paths { paths: vec![format!("{}/built", d)], extensions: None });
                        if simrt::stamp::fnv(simrt::stamp::FNV_INIT, format!("{}/{}", pdir, d).as_bytes()) % 2 == 0 {
                            // a leftover of an earlier version of the script lies in that output
                            // directory, and the script empties the directory before it writes
                            // (decided by a hash of the path, not by the generator's stream)
                            files.push(FileSpec { path: format!("{}/{}/built/stale.c", pdir, d), kind: FileKind::File("generated by an earlier version\n".into()) });
                            t.wipes.push(format!("{}/built/stale.c", d));
                        }
                    }
                    if rng.chance(10) {
                        // a tool's control pipe lying in the sources: not a regular file
                        files.push(FileSpec { path: format!("{}/{}/ctl.pipe", pdir, d), kind: FileKind::Fifo });
                    }
                    if rng.chance(25) {
                        files.push(FileSpec { path: format!("{}/{}/.zinoma/planted.c", pdir, d), kind: FileKind::File("planted\n".into()) });
                    }
                    if rng.chance(25) {
                        // a work directory deeper in the declared directory (e.g. of a nested project)
                        files.push(FileSpec { path: format!("{}/{}/sub/.zinoma/deep.c", pdir, d), kind: FileKind::File("planted deeper\n".into()) });
                        files.push(FileSpec { path: format!("{}/{}/sub/keep.c", pdir, d), kind: FileKind::File("next to a nested work dir\n".into()) });
                    }
                    let ext = match rng.weighted(&[40, 25, 20, 15, 12]) {
                        4 => {
                            // filters are case-sensitive suffixes: `C` selects Main.C, not a.c
                            files.push(FileSpec { path: format!("{}/{}/Main.C", pdir, d), kind: FileKind::File(format!("{} {} Main.C v0\n", pdir, name)) });
                            files.push(FileSpec { path: format!("{}/{}/Defs.H", pdir, d), kind: FileKind::File(format!("{} {} Defs.H v0\n", pdir, name)) });
                            Some(vec!["C".to_string(), ".H".to_string()])
                        }
                        0 => None,
                        1 => Some(vec!["c".to_string(), ".h".to_string()]),
                        2 => Some(vec![".c".to_string(), "".to_string()]),
                        _ => Some(if rng.chance(50) { vec![] } else { vec!["".to_string()] }),
                    };
                    if rng.chance(20) {
                        t.input.push(Res::Paths { paths: vec![d.clone()], extensions: Some(vec!["c".to_string()]) });
                        t.input.push(Res::Paths { paths: vec![d], extensions: Some(vec![".h".to_string()]) });
                    } else {
                        t.input.push(Res::Paths { paths: vec![d], extensions: ext });
                    }
                }
                2 => {
                    let src = format!("src/{}.bin", name);
                    files.push(FileSpec { path: format!("{}/{}", pdir, src), kind: FileKind::File(big_content(rng, &name)) });
                    t.input.push(Res::Paths { paths: vec![src], extensions: None });
                }
                _ => {}
            }
            if rng.chance(15) {
                // one resource listing sibling paths of which one is a textual prefix of the
                // other (`gen/t0` and `gen/t0-extra`, `gen/t0.lst` and `gen/t0.lst.bak`)
                let a = format!("gen/{}", name);
                files.push(FileSpec { path: format!("{}/{}/one.txt", pdir, a), kind: FileKind::File(format!("{} {} one v0\n", pdir, name)) });
                files.push(FileSpec { path: format!("{}/{}-extra/two.txt", pdir, a), kind: FileKind::File(format!("{} {} two v0\n", pdir, name)) });
                files.push(FileSpec { path: format!("{}/{}.lst", pdir, a), kind: FileKind::File(format!("{} {} list v0\n", pdir, name)) });
                files.push(FileSpec { path: format!("{}/{}.lst.bak", pdir, a), kind: FileKind::File(format!("{} {} list backup v0\n", pdir, name)) });
                let mut paths = vec![a.clone(), format!("{}-extra", a), format!("{}.lst", a), format!("{}.lst.bak", a)];
                rng.shuffle(&mut paths);
                t.input.push(Res::Paths { paths, extensions: None });
            }
            if !t.input.is_empty() && rng.chance(18) {
                // a second, separate `paths` entry with the same (absent) filter as the first
                let extra = format!("src2/{}.txt", name);
                files.push(FileSpec { path: format!("{}/{}", pdir, extra), kind: FileKind::File(format!("{} {} second entry v0\n", pdir, name)) });
                t.input.push(Res::Paths { paths: vec![extra], extensions: None });
            }
            if rng.chance(o.cmd_pct) {
                // the same command text in every project directory, different values per directory
                let key = if rng.chance(60) { "ver".to_string() } else { format!("k{}", name) };
                let initial = match rng.weighted(&[12, 4, 69, 15]) {
                    0 => "blob \\xff end\n".to_string(),
                    3 => format!("{} steady\n", key),
                    // more than a pipe buffer holds
                    1 => format!("!big:{}:{} {} 1\n", rng.range(66_000, 200_000), pdir, key),
                    _ => format!("{} {} 1\n", pdir, key),
                };
                vars.insert(format!("{}__{}", pdir.replace('/', "+"), key), initial);
                t.input.push(Res::Cmd { key });
            }
        }
        if kind == Kind::Build {
            match rng.weighted(&[45, 22, 10, 13, 10]) {
                4 => {
                    // several producers share one output directory, told apart by extension
                    // told apart by extension; half of them a single letter written without its dot
                    let k = projects[pi].targets.len();
                    let ext = if rng.chance(50) { ["o", "a", "x", "s", "d", "m", "k", "z"][k % 8].to_string() } else { format!("o{}", k) };
                    t.writes.push(format!("dist/{}.{}", name, ext));
                    t.output.push(Res::Paths { paths: vec!["dist".to_string()], extensions: Some(vec![ext]) });
                }
                0 => {
                    let out = format!("out/{}.out", name);
                    t.output.push(Res::Paths { paths: vec![out.clone()], extensions: None });
                    t.writes.push(out);
                }
                1 => {
                    let d = format!("out/{}", name);
                    t.writes.push(format!("{}/x.o", d));
                    t.writes.push(format!("{}/sub/y.o", d));
                    t.writes.push(format!("{}/log.txt", d));
                    // `[]` and `['']` both mean "no filter"
                    let ext = match rng.weighted(&[62, 22, 8, 8]) {
                        0 => Some(vec!["o".to_string()]),
                        1 => None,
                        2 => Some(vec![]),
                        _ => Some(vec!["".to_string()]),
                    };
                    t.output.push(Res::Paths { paths: vec![d], extensions: ext });
                }
                2 => {
                    let key = "ver".to_string();
                    vars.entry(format!("{}__{}", pdir.replace('/', "+"), key)).or_insert_with(|| format!("{} out 1\n", pdir));
                    t.output.push(Res::Cmd { key });
                    let out = format!("out/{}.out", name);
                    t.output.push(Res::Paths { paths: vec![out.clone()], extensions: None });
                    t.writes.push(out);
                }
                _ => {}
            }
            if o.cmd_output_pct > 0 && rng.chance(o.cmd_output_pct) && !t.output.iter().any(|r| matches!(r, Res::Cmd { .. })) {
                let key = "ver".to_string();
                vars.entry(format!("{}__{}", pdir.replace('/', "+"), key)).or_insert_with(|| format!("{} out 1\n", pdir));
                t.output.push(Res::Cmd { key });
            }
            if rng.chance(15) {
                t.size = rng.range(1200, 2500);
            }
        }
        created.push((pi, name));
        projects[pi].targets.push(t);
    }
    for p in &projects {
        files.push(FileSpec { path: format!("{}/out", p.dir), kind: FileKind::Dir });
        files.push(FileSpec { path: format!("{}/dist", p.dir), kind: FileKind::Dir });
    }
    Scenario { focus: None, label: format!("io-{}proj-layout{}", np, layout), projects, files, vars, steps: vec![] }
}

/// Requests for multi-project scenarios, relative to the entry project.
pub fn gen_request_io(rng: &mut Rng, sc: &Scenario, entry: usize) -> Vec<String> {
    // targets reachable by name from `entry`: its own (bare or qualified) and, from the root,
    // every loaded project's (qualified)
    let mut names: Vec<String> = vec![];
    for t in &sc.projects[entry].targets {
        match &sc.projects[entry].name {
            Some(n) if rng.chance(35) => names.push(format!("{}::{}", n, t.name)),
            _ => names.push(t.name.clone()),
        }
    }
    let loaded = loaded_projects(sc, entry);
    for &pi in &loaded {
        if pi != entry {
            if let Some(n) = &sc.projects[pi].name {
                for t in &sc.projects[pi].targets {
                    names.push(format!("{}::{}", n, t.name));
                }
            }
        }
    }
    if names.is_empty() {
        return vec![];
    }
    let k = rng.weighted(&[45, 35, 20]) + 1;
    let mut out = vec![];
    for _ in 0..k {
        let n = rng.pick(&names).clone();
        if !out.contains(&n) {
            out.push(n);
        }
    }
    out
}

pub fn loaded_projects(sc: &Scenario, entry: usize) -> Vec<usize> {
    let mut seen = vec![entry];
    let mut i = 0;
    while i < seen.len() {
        let p = seen[i];
        for (_, q) in &sc.projects[p].imports {
            if !seen.contains(q) {
                seen.push(*q);
            }
        }
        i += 1;
    }
    seen
}
