//! Search loop: generate cases from the seed, evaluate them on all cores, classify violations
//! against the known findings, minimise, write replay and evidence.

use crate::prng::Rng;
use crate::scen::{Scenario, Step};
use serde::{Deserialize, Serialize};
use serde_json::{json, Value};
use std::collections::{BTreeMap, BTreeSet};
use std::path::{Path, PathBuf};
use std::sync::atomic::{AtomicBool, AtomicU64, Ordering};
use std::sync::{mpsc, Arc};

#[derive(Serialize, Deserialize, Clone, Debug, PartialEq)]
pub struct Violation {
    /// stable name of the oracle clause that fired
    pub oracle: String,
    /// what failed, in terms of the scenario (used to match known findings)
    pub witness: String,
    pub message: String,
}

#[derive(Default, Clone, Debug)]
pub struct Stats {
    pub runs: u64,
    pub fault_runs: u64,
    pub nontrivial: BTreeSet<u64>,
    pub shapes: BTreeSet<String>,
    pub sim_ticks: u64,
    pub steps: u64,
    pub decisions: u64,
    pub faults: BTreeMap<String, u64>,
    pub probes: BTreeMap<String, u64>,
    pub strategies: BTreeMap<String, u64>,
    pub exits: BTreeMap<String, u64>,
    pub run_wall_us: u64,
    pub enumerated: u64,
    pub sample: Option<Value>,
    pub recorded: Vec<Vec<u32>>,
    pub digests: Vec<u64>,
    pub harness_errors: Vec<String>,
}

impl Stats {
    pub fn absorb_run(&mut self, inv: &crate::scen::Invocation, r: &crate::run::RunResult, nontrivial: bool) {
        self.runs += 1;
        if !inv.plan.faults.is_empty() || inv.plan.crash_at.is_some() {
            self.fault_runs += 1;
        }
        if nontrivial {
            self.nontrivial.insert(r.order_hash);
        }
        let s = match &inv.plan.strategy {
            simrt::plan::Strategy::Fifo => "fifo",
            simrt::plan::Strategy::Random { .. } => "random-walk",
            simrt::plan::Strategy::Pct { .. } => "pct",
            simrt::plan::Strategy::Delay { .. } => "delay-one",
        };
        *self.strategies.entry(s.into()).or_insert(0) += 1;
        *self.exits.entry(format!("{}/{}", r.exit_kind(), r.code)).or_insert(0) += 1;
        if let Some(f) = &r.footer {
            self.steps += f.steps;
            self.decisions += f.decisions;
            for (k, v) in &f.faults {
                *self.faults.entry(k.clone()).or_insert(0) += v;
            }
            for (k, v) in &f.probes {
                *self.probes.entry(k.clone()).or_insert(0) += v;
            }
            self.recorded.push(f.choices.clone());
        } else {
            self.recorded.push(vec![]);
        }
        self.digests.push(r.trace_digest);
        self.run_wall_us += r.wall_us;
        self.sim_ticks += r.sim_ticks;
        if inv.plan.crash_at.is_some() && r.code == 137 {
            *self.faults.entry("crash".into()).or_insert(0) += 1;
        }
    }
    pub fn merge(&mut self, o: Stats) {
        self.runs += o.runs;
        self.fault_runs += o.fault_runs;
        self.nontrivial.extend(o.nontrivial);
        self.shapes.extend(o.shapes);
        self.sim_ticks += o.sim_ticks;
        self.steps += o.steps;
        self.decisions += o.decisions;
        self.enumerated += o.enumerated;
        for (k, v) in o.faults {
            *self.faults.entry(k).or_insert(0) += v;
        }
        for (k, v) in o.probes {
            *self.probes.entry(k).or_insert(0) += v;
        }
        for (k, v) in o.strategies {
            *self.strategies.entry(k).or_insert(0) += v;
        }
        for (k, v) in o.exits {
            *self.exits.entry(k).or_insert(0) += v;
        }
        self.run_wall_us += o.run_wall_us;
        self.harness_errors.extend(o.harness_errors);
    }
}

pub trait Property: Sync {
    fn id(&self) -> &'static str;
    fn level(&self) -> &'static str {
        "exploration"
    }
    fn cases(&self, tier: &str) -> u64;
    fn rule(&self) -> &'static str;
    fn assumptions(&self) -> Vec<&'static str> {
        vec![]
    }
    fn generate(&self, rng: &mut Rng, case_no: u64) -> Scenario;
    /// Deterministic: materialises the scenario under `root`, runs it, evaluates the oracle.
    fn evaluate(&self, sc: &Scenario, root: &Path, stats: &mut Stats) -> Option<Violation>;
    /// Enumeration checks: restrict the scenario to the item that failed (from the witness).
    fn narrow(&self, _sc: &Scenario, _v: &Violation) -> Option<Scenario> {
        None
    }
    /// probes that must be non-zero after a quick run (workload reach)
    fn required_probes(&self) -> Vec<&'static str> {
        vec![]
    }
}

#[derive(Serialize, Deserialize, Clone, Debug)]
pub struct Replay {
    pub property: String,
    pub seed: u64,
    pub case: u64,
    pub case_dir: String,
    pub violation: Violation,
    pub minimised: bool,
    pub original_steps: usize,
    pub scenario: Scenario,
    pub digests: Vec<u64>,
}

#[derive(Deserialize, Clone, Debug)]
pub struct KnownFinding {
    pub property: String,
    pub id: String,
    pub status: String,
    pub oracle: String,
    /// substring that must occur in the violation's witness
    pub witness_contains: String,
    pub what: String,
}

pub fn load_known(verif: &Path) -> Vec<KnownFinding> {
    let p = verif.join("known-findings.jsonl");
    let mut v = vec![];
    if let Ok(text) = std::fs::read_to_string(p) {
        for l in text.lines() {
            let l = l.trim();
            if l.is_empty() || l.starts_with('#') || l.starts_with("fixed:") {
                continue;
            }
            if let Ok(k) = serde_json::from_str::<KnownFinding>(l) {
                if k.status == "known" {
                    v.push(k);
                }
            }
        }
    }
    v
}

/// Scratch base: `/dev/shm/zsim`, or `/dev/shm/zsim-<slot>` when ZCHECK_SLOT is set (lets a
/// background sweep run beside the registered checks without sharing case directories; the
/// absolute path is part of the input, so a slot explores other hash orders).
pub fn scratch_base() -> String {
    match std::env::var("ZCHECK_SLOT") {
        Ok(s) if !s.is_empty() => format!("/dev/shm/zsim-{}", s),
        _ => "/dev/shm/zsim".to_string(),
    }
}

pub fn case_root(prop: &str, case_no: u64) -> PathBuf {
    PathBuf::from(format!("{}/{}/c{}", scratch_base(), prop, case_no))
}

pub struct Lock(i32);
pub fn lock_property(prop: &str) -> Lock {
    let _ = std::fs::create_dir_all(scratch_base());
    let path = std::ffi::CString::new(format!("{}/{}.lock", scratch_base(), prop)).unwrap();
    unsafe {
        let fd = libc::open(path.as_ptr(), libc::O_CREAT | libc::O_RDWR, 0o644);
        if fd >= 0 {
            libc::flock(fd, libc::LOCK_EX);
        }
        Lock(fd)
    }
}
impl Drop for Lock {
    fn drop(&mut self) {
        unsafe {
            if self.0 >= 0 {
                libc::flock(self.0, libc::LOCK_UN);
                libc::close(self.0);
            }
        }
    }
}

fn fill_choices(sc: &Scenario, recorded: &[Vec<u32>]) -> Scenario {
    let mut out = sc.clone();
    let mut i = 0;
    for st in out.steps.iter_mut() {
        if let Step::Invoke(inv) = st {
            if let Some(c) = recorded.get(i) {
                inv.plan.choices = Some(c.clone());
            }
            i += 1;
        }
    }
    out
}

pub struct CheckOutput {
    pub code: i32,
}

pub fn run_check(prop: &dyn Property, tier: &str, seed: u64, verif: &Path) -> CheckOutput {
    let t0 = std::time::Instant::now();
    let _lock = lock_property(prop.id());
    let total = match std::env::var("ZCHECK_CASES").ok().and_then(|s| s.parse().ok()) {
        Some(n) => n,
        None => prop.cases(tier),
    };
    let wall_cap = match tier {
        "quick" => 240.0,
        _ => 3600.0,
    };
    let workers = std::env::var("ZCHECK_WORKERS").ok().and_then(|s| s.parse().ok()).unwrap_or(16usize);
    let next = Arc::new(AtomicU64::new(0));
    let stop = Arc::new(AtomicBool::new(false));
    let known = load_known(verif);
    let (tx, rx) = mpsc::channel::<(u64, Stats, Option<(Scenario, Violation)>)>();
    let mut agg = Stats::default();
    let mut samples: Vec<Value> = vec![];
    let mut known_met: BTreeMap<String, (u64, String)> = BTreeMap::new();
    let mut violations: BTreeMap<u64, (Scenario, Violation, Vec<Vec<u32>>)> = BTreeMap::new();
    let mut evaluated = 0u64;
    std::thread::scope(|s| {
        for _ in 0..workers {
            let tx = tx.clone();
            let next = next.clone();
            let stop = stop.clone();
            s.spawn(move || loop {
                if stop.load(Ordering::SeqCst) {
                    break;
                }
                let i = next.fetch_add(1, Ordering::SeqCst);
                if i >= total {
                    break;
                }
                let mut rng = Rng::derive(seed, prop.id(), i);
                let sc = prop.generate(&mut rng, i);
                let root = case_root(prop.id(), i);
                let mut st = Stats::default();
                st.shapes.insert(sc.label.clone());
                let v = prop.evaluate(&sc, &root, &mut st);
                let _ = std::fs::remove_dir_all(&root);
                let _ = tx.send((i, st, v.map(|v| (sc, v))));
            });
        }
        drop(tx);
        for (i, st, v) in rx {
            evaluated += 1;
            if samples.len() < 3 {
                if let Some(smp) = &st.sample {
                    samples.push(smp.clone());
                }
            }
            let recorded = st.recorded.clone();
            agg.merge(st);
            if let Some((sc, v)) = v {
                match known.iter().find(|k| k.property == prop.id() && k.oracle == v.oracle && v.witness.contains(&k.witness_contains)) {
                    Some(k) => {
                        let e = known_met.entry(k.id.clone()).or_insert((0, k.what.clone()));
                        e.0 += 1;
                    }
                    None => {
                        violations.insert(i, (sc, v, recorded));
                        stop.store(true, Ordering::SeqCst);
                    }
                }
            }
            if t0.elapsed().as_secs_f64() > wall_cap {
                stop.store(true, Ordering::SeqCst);
            }
        }
    });
    for (id, (n, what)) in &known_met {
        println!("KNOWN-FINDING: property={} {} [{}; met in {} cases]", prop.id(), what, id, n);
    }
    let mut code = 0;
    let mut violation_count = 0;
    if !agg.harness_errors.is_empty() {
        for e in agg.harness_errors.iter().take(5) {
            eprintln!("HARNESS-ERROR: {}", e);
        }
        code = 2;
    }
    if let Some((case_no, (sc, v, recorded))) = violations.into_iter().next() {
        violation_count = 1;
        let root = case_root(prop.id(), case_no);
        let original_steps = sc.steps.len();
        let narrowed = prop.narrow(&sc, &v);
        let with_choices = match narrowed {
            Some(n) => n,
            None => fill_choices(&sc, &recorded),
        };
        let (min_sc, min_v, minimised) = crate::shrink::minimise(prop, &with_choices, &v, &root, tier);
        // fresh evaluation of the minimised scenario for the digests
        let mut st = Stats::default();
        let again = prop.evaluate(&min_sc, &root, &mut st);
        let _ = std::fs::remove_dir_all(&root);
        let (final_sc, final_v, digests, minimised) = match again {
            Some(a) if a.oracle == min_v.oracle => (min_sc, a, st.digests, minimised),
            _ => {
                // fall back to the unminimised scenario
                let mut st = Stats::default();
                let a = prop.evaluate(&with_choices, &root, &mut st);
                let _ = std::fs::remove_dir_all(&root);
                (with_choices, a.unwrap_or(v.clone()), st.digests, false)
            }
        };
        let rp = Replay {
            property: prop.id().into(),
            seed,
            case: case_no,
            case_dir: root.to_string_lossy().into_owned(),
            violation: final_v.clone(),
            minimised,
            original_steps,
            scenario: final_sc,
            digests,
        };
        let dir = verif.join("replays");
        let _ = std::fs::create_dir_all(&dir);
        let path = dir.join(format!("{}-{}-{}.json", prop.id(), seed, case_no));
        std::fs::write(&path, serde_json::to_string_pretty(&rp).unwrap()).expect("write replay");
        println!("VIOLATION property={} replay={}", prop.id(), path.display());
        println!("  oracle: {}", final_v.oracle);
        println!("  witness: {}", final_v.witness);
        println!("  {}", final_v.message);
        code = 1;
    }
    // reach: required probes
    if code == 0 && std::env::var_os("ZCHECK_CASES").is_none() {
        for p in prop.required_probes() {
            if agg.probes.get(p).copied().unwrap_or(0) == 0 {
                eprintln!("HARNESS-ERROR: probe '{}' stayed at zero: the workload lost its reach", p);
                code = 2;
            }
        }
    }
    let wall = t0.elapsed().as_secs_f64();
    let ev = json!({
        "property_id": prop.id(),
        "tier": if tier == "quick" { "quick" } else { "thorough" },
        "seed": seed,
        "level": prop.level(),
        "coverage": {
            "evaluations": agg.runs,
            "distinct_nontrivial": agg.nontrivial.len(),
            "rule": prop.rule(),
            "samples": samples,
            "cases": evaluated,
            "cases_planned": total,
            "scenario_shapes": agg.shapes.iter().collect::<Vec<_>>(),
            "strategies": agg.strategies,
            "run_endings": agg.exits,
            "fault_free_runs": agg.runs - agg.fault_runs,
            "fault_runs": agg.fault_runs,
            "faults_fired": agg.faults,
            "probes": agg.probes,
            "decision_indices_enumerated": agg.enumerated,
            "enumeration_complete_over_crash_indices_of_each_sampled_schedule": prop.id() == "C05",
            "executor_steps": agg.steps,
            "scheduling_decisions": agg.decisions,
            "sim_time_ticks": agg.sim_ticks,
            "runs_per_hour": if wall > 0.0 { (agg.runs as f64 / wall * 3600.0) as u64 } else { 0 },
            "seeds_per_hour": if wall > 0.0 { (evaluated as f64 / wall * 3600.0) as u64 } else { 0 },
            "known_findings_met": known_met.iter().map(|(k, v)| json!({"id": k, "cases": v.0})).collect::<Vec<_>>(),
            "real_components": ["all of /repo/src (main, relay loop, actors, incremental runner, storage, watcher callback, clean, fs, work_dir, run_script)", "clap", "serde_yaml", "bincode", "walkdir", "seahash", "regex", "futures select!/join_all/buffer_unordered", "async-channel queues", "std::fs on tmpfs"],
            "stub_components": ["async-std executor and blocking pool", "async-std fs/path async wrappers", "async-process (virtual processes)", "notify (virtual inotify)", "async-ctrlc (virtual signal)", "stderrlog", "jemallocator", "getrandom (seeded hash order)"],
        },
        "assumptions": prop.assumptions(),
        "wall_s": wall,
        "violations": violation_count,
    });
    let evdir = verif.join("evidence");
    let _ = std::fs::create_dir_all(&evdir);
    std::fs::write(evdir.join(format!("{}.json", prop.id())), serde_json::to_string_pretty(&ev).unwrap()).expect("write evidence");
    eprintln!(
        "{} {}: {} cases, {} runs, {} distinct nontrivial interleavings, {:.1}s, exit {}",
        prop.id(),
        tier,
        evaluated,
        agg.runs,
        agg.nontrivial.len(),
        wall,
        code
    );
    CheckOutput { code }
}

pub fn replay(props: &[Box<dyn Property>], file: &Path) -> i32 {
    let text = match std::fs::read_to_string(file) {
        Ok(t) => t,
        Err(e) => {
            eprintln!("cannot read {}: {}", file.display(), e);
            return 2;
        }
    };
    let rp: Replay = match serde_json::from_str(&text) {
        Ok(r) => r,
        Err(e) => {
            eprintln!("bad replay file: {}", e);
            return 2;
        }
    };
    let prop = match props.iter().find(|p| p.id() == rp.property) {
        Some(p) => p,
        None => {
            eprintln!("unknown property {}", rp.property);
            return 2;
        }
    };
    let _lock = lock_property(prop.id());
    let root = PathBuf::from(&rp.case_dir);
    let mut st = Stats::default();
    let v = prop.evaluate(&rp.scenario, &root, &mut st);
    if std::env::var_os("ZCHECK_KEEP").is_none() {
        let _ = std::fs::remove_dir_all(&root);
    }
    match v {
        Some(v) => {
            println!("VIOLATION property={} replay={}", rp.property, file.display());
            println!("  oracle: {}", v.oracle);
            println!("  witness: {}", v.witness);
            println!("  {}", v.message);
            if v.oracle != rp.violation.oracle {
                eprintln!("replay produced a different violation (recorded oracle: {})", rp.violation.oracle);
                return 2;
            }
            if st.digests != rp.digests {
                eprintln!("replay diverged: trace digests differ from the recorded ones");
                return 2;
            }
            println!("  replay reproduced the recorded violation exactly ({} traces, digests equal)", st.digests.len());
            1
        }
        None => {
            println!("no violation on replay (recorded: {})", rp.violation.oracle);
            0
        }
    }
}

/// Determinism self-test: the same case seeds evaluated repeatedly, at several worker counts,
/// must give byte-identical traces (compared through their digests).
pub fn selftest_determinism(props: &[Box<dyn Property>], n: u64) -> i32 {
    let mut bad = 0;
    let mut total = 0u64;
    let n_req = n;
    for prop in props {
        let _lock = lock_property(prop.id());
        // enumeration checks run hundreds of invocations per case: fewer cases
        let n = n_req.min((prop.cases("quick") / 5).max(3));
        let batch = |workers: usize, seed: u64, n: u64| -> Vec<(Vec<u64>, Option<String>)> {
            let next = Arc::new(AtomicU64::new(0));
            let (tx, rx) = mpsc::channel();
            std::thread::scope(|s| {
                for _ in 0..workers {
                    let tx = tx.clone();
                    let next = next.clone();
                    s.spawn(move || loop {
                        let i = next.fetch_add(1, Ordering::SeqCst);
                        if i >= n {
                            break;
                        }
                        let mut rng = Rng::derive(seed, prop.id(), i);
                        let sc = prop.generate(&mut rng, i);
                        let root = case_root(prop.id(), i);
                        let mut st = Stats::default();
                        let v = prop.evaluate(&sc, &root, &mut st);
                        let _ = std::fs::remove_dir_all(&root);
                        let _ = tx.send((i, st.digests, v.map(|v| v.oracle)));
                    });
                }
                drop(tx);
            });
            let mut out = vec![(vec![], None); n as usize];
            for (i, d, v) in rx {
                out[i as usize] = (d, v);
            }
            out
        };
        // the single-worker execution is the slow one: a quarter of the cases
        let n1 = (n / 4).max(2).min(n);
        let a = batch(16, 1, n);
        let b = batch(4, 1, n);
        let c = batch(1, 1, n1);
        let d = batch(16, 1, n);
        for i in 0..n as usize {
            total += 1;
            if a[i] != b[i] || a[i] != d[i] || (i < n1 as usize && a[i] != c[i]) {
                bad += 1;
                if bad <= 5 {
                    eprintln!("NONDETERMINISM: property {} case {}: digests differ between executions", prop.id(), i);
                }
            }
        }
    }
    eprintln!("selftest-determinism: {} case seeds x 3 executions (16, 4, 16 workers; a quarter of them also with 1 worker), {} divergent", total, bad);
    if bad > 0 {
        2
    } else {
        0
    }
}
