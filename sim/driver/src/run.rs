//! Launch one simulated invocation of zinoma and parse its trace.

use crate::scen::{Case, Invocation, Scenario};
use std::collections::BTreeMap;
use std::path::{Path, PathBuf};
use std::process::{Command, Stdio};

#[derive(Clone, Debug)]
pub struct Ev {
    pub seq: u64,
    pub task: String,
    pub kind: String,
    pub rest: String,
}

impl Ev {
    pub fn field(&self, key: &str) -> Option<&str> {
        let pat = format!("{}=", key);
        self.rest.split(' ').find_map(|t| t.strip_prefix(pat.as_str()))
    }
    pub fn word(&self, i: usize) -> &str {
        self.rest.split(' ').nth(i).unwrap_or("")
    }
}

#[derive(Clone, Debug, Default)]
pub struct ProcEnd {
    pub pid: String,
    pub id: String,
    pub kind: String,
    pub state: String,
    pub reaped: bool,
}

#[derive(Clone, Debug, Default)]
pub struct Footer {
    pub exit: String,
    pub steps: u64,
    pub decisions: u64,
    pub clock: u64,
    pub quiescences: u64,
    pub procs: Vec<ProcEnd>,
    pub pending: Vec<String>,
    pub probes: BTreeMap<String, u64>,
    pub faults: BTreeMap<String, u64>,
    pub choices: Vec<u32>,
}

#[derive(Clone, Debug)]
pub struct ProcInst {
    pub pid: String,
    pub id: String,
    pub kind: String,
    pub nth: u32,
    pub snap: String,
    pub spawn_seq: u64,
    /// (seq, raw status, files written)
    pub exit: Option<(u64, i32, Vec<String>)>,
    pub kill_seq: Option<u64>,
    pub reap_seq: Option<u64>,
}

#[derive(Clone, Debug)]
pub struct RunResult {
    pub code: i32,
    pub stderr: String,
    pub events: Vec<Ev>,
    pub footer: Option<Footer>,
    pub trace_digest: u64,
    pub order_hash: u64,
    pub procs: Vec<ProcInst>,
    pub wall_us: u64,
    /// logical clock ticks this invocation advanced (script and workload writes, script durations)
    pub sim_ticks: u64,
}

impl RunResult {
    pub fn exit_kind(&self) -> &str {
        match &self.footer {
            Some(f) => f.exit.as_str(),
            None => "none",
        }
    }
    pub fn main_returned(&self) -> bool {
        self.exit_kind() == "main-returned"
    }
    pub fn seq_of(&self, kind: &str) -> Option<u64> {
        self.events.iter().find(|e| e.kind == kind).map(|e| e.seq)
    }
    pub fn logs(&self) -> impl Iterator<Item = &Ev> {
        self.events.iter().filter(|e| e.kind == "log")
    }
    /// sequence numbers of `<display> - Build skipped (Not Modified)`
    pub fn skips(&self, display: &str) -> Vec<u64> {
        let pat = format!("INFO {} - Build skipped (Not Modified)", display);
        self.logs().filter(|e| e.rest == pat).map(|e| e.seq).collect()
    }
    pub fn insts(&self, id: &str) -> Vec<&ProcInst> {
        self.procs.iter().filter(|p| p.id == id).collect()
    }
    pub fn abnormal(&self) -> Option<String> {
        if self.code == 101 || self.events.iter().any(|e| e.kind == "panic" && e.task != "--cb") {
            return Some("panic".into());
        }
        if self.code == 134 || self.code == 139 || self.code == -6 || self.code == -11 {
            return Some(format!("abort({})", self.code));
        }
        None
    }
}

fn parse_footer(line: &str) -> Footer {
    let mut f = Footer::default();
    let body = line.strip_prefix("FOOTER ").unwrap_or(line);
    // fields are key=value separated by spaces; bracketed values contain no spaces
    for tok in body.split(' ') {
        let (k, v) = match tok.split_once('=') {
            Some(x) => x,
            None => continue,
        };
        let inner = v.trim_start_matches('[').trim_end_matches(']');
        match k {
            "exit" => f.exit = v.to_string(),
            "steps" => f.steps = v.parse().unwrap_or(0),
            "decisions" => f.decisions = v.parse().unwrap_or(0),
            "clock" => f.clock = v.parse().unwrap_or(0),
            "quiescences" => f.quiescences = v.parse().unwrap_or(0),
            "procs" => {
                for p in inner.split(',').filter(|s| !s.is_empty()) {
                    let parts: Vec<&str> = p.split(':').collect();
                    if parts.len() >= 5 {
                        f.procs.push(ProcEnd {
                            pid: parts[0].to_string(),
                            id: parts[1..parts.len() - 3].join(":"),
                            kind: parts[parts.len() - 3].to_string(),
                            state: parts[parts.len() - 2].to_string(),
                            reaped: parts[parts.len() - 1] == "reaped",
                        });
                    }
                }
            }
            "pending" => f.pending = inner.split(',').filter(|s| !s.is_empty()).map(String::from).collect(),
            "probes" | "faults" => {
                for p in inner.split(',').filter(|s| !s.is_empty()) {
                    if let Some((a, b)) = p.rsplit_once('=') {
                        let m = if k == "probes" { &mut f.probes } else { &mut f.faults };
                        m.insert(a.to_string(), b.parse().unwrap_or(0));
                    }
                }
            }
            "choices" => f.choices = inner.split(',').filter_map(|s| s.parse().ok()).collect(),
            _ => {}
        }
    }
    f
}

pub fn parse_trace(text: &str) -> (Vec<Ev>, Option<Footer>) {
    let mut evs = Vec::new();
    let mut footer = None;
    for line in text.lines() {
        if line.starts_with("FOOTER ") {
            footer = Some(parse_footer(line));
            continue;
        }
        let mut it = line.splitn(4, ' ');
        let seq = it.next().and_then(|s| s.parse().ok());
        let task = it.next();
        let kind = it.next();
        let rest = it.next().unwrap_or("");
        if let (Some(seq), Some(task), Some(kind)) = (seq, task, kind) {
            evs.push(Ev { seq, task: task.to_string(), kind: kind.to_string(), rest: rest.to_string() });
        }
    }
    (evs, footer)
}

fn build_procs(evs: &[Ev]) -> Vec<ProcInst> {
    let mut v: Vec<ProcInst> = vec![];
    for e in evs {
        match e.kind.as_str() {
            "proc-spawn" => v.push(ProcInst {
                pid: e.word(0).to_string(),
                id: e.field("id").unwrap_or("").to_string(),
                kind: e.field("kind").unwrap_or("").to_string(),
                nth: e.field("nth").and_then(|s| s.parse().ok()).unwrap_or(0),
                snap: e.field("snap").unwrap_or("").to_string(),
                spawn_seq: e.seq,
                exit: None,
                kill_seq: None,
                reap_seq: None,
            }),
            "proc-exit" => {
                let pid = e.word(0);
                if let Some(p) = v.iter_mut().find(|p| p.pid == pid) {
                    // `truth`: what became of the script when that differs from the status the
                    // shell handed to zinoma (a failing middle command under a shell without -e)
                    let raw = e.field("truth").or(e.field("raw")).and_then(|s| s.parse().ok()).unwrap_or(-1);
                    let wrote = e.field("wrote").unwrap_or("").split(',').filter(|s| !s.is_empty()).map(String::from).collect();
                    p.exit = Some((e.seq, raw, wrote));
                }
            }
            "proc-kill" => {
                let pid = e.word(0);
                if e.rest.ends_with(" noop") {
                    continue;
                }
                if let Some(p) = v.iter_mut().find(|p| p.pid == pid) {
                    p.kill_seq = Some(e.seq);
                }
            }
            "proc-reap" => {
                let pid = e.word(0);
                if let Some(p) = v.iter_mut().find(|p| p.pid == pid) {
                    p.reap_seq = Some(e.seq);
                }
            }
            _ => {}
        }
    }
    v
}

pub fn sim_binary() -> PathBuf {
    match std::env::var_os("ZSIM_BIN") {
        Some(p) => PathBuf::from(p),
        None => PathBuf::from("/verif/sim/target/debug/zinoma-sim"),
    }
}

/// Runs one invocation. `tag` names the plan/trace files inside the case's run directory.
pub fn run_invocation(sc: &Scenario, case: &mut Case, inv: &Invocation, tag: &str) -> RunResult {
    let run_dir = case.run_dir();
    let plan_path = run_dir.join(format!("{}.plan.json", tag));
    let trace_path = run_dir.join(format!("{}.trace", tag));
    let stderr_path = run_dir.join(format!("{}.stderr", tag));
    let mut plan = inv.plan.clone();
    plan.root = case.root.to_string_lossy().into_owned();
    plan.vars_dir = case.vars_dir().to_string_lossy().into_owned();
    plan.clock_start = case.clock;
    plan.knobs.full_trace = true;
    std::fs::write(&plan_path, serde_json::to_string(&plan).unwrap()).expect("write plan");
    let _ = std::fs::remove_file(&trace_path);
    let entry_dir = case.project_dir(sc, inv.entry);
    let t0 = std::time::Instant::now();
    let mut cmd = Command::new(sim_binary());
    // a corrupted length field must fail its allocation at once instead of touching gigabytes
    unsafe {
        use std::os::unix::process::CommandExt;
        cmd.pre_exec(|| {
            let lim = libc::rlimit { rlim_cur: 1 << 31, rlim_max: 1 << 31 };
            libc::setrlimit(libc::RLIMIT_AS, &lim);
            Ok(())
        });
    }
    // the project directory is spelled differently from one invocation to the next (plain, with
    // a trailing `/.`, through `<dir>/../<name>`, through a symbolic link): all of them are the same directory
    let spelled = match (inv.hash_seed % 4, entry_dir.file_name()) {
        (1, _) => entry_dir.join("."),
        (2, Some(name)) => entry_dir.join("..").join(name),
        // through a symbolic link to the directory (kept with the run files, outside every project)
        (3, Some(_)) => {
            let link = run_dir.join(format!("via-{}", tag));
            let _ = std::fs::remove_file(&link);
            match std::os::unix::fs::symlink(&entry_dir, &link) {
                Ok(()) => link,
                Err(_) => entry_dir.clone(),
            }
        }
        _ => entry_dir.clone(),
    };
    let out = cmd
        .arg("-p")
        .arg(&spelled)
        .args(&inv.args)
        .env_clear()
        .env("ZSIM_PLAN", &plan_path)
        .env("ZSIM_TRACE", &trace_path)
        .env("ZSIM_HASHSEED", inv.hash_seed.to_string())
        .env("PATH", "/usr/bin:/bin")
        .current_dir(&case.root)
        .stdin(Stdio::null())
        .stdout(Stdio::null())
        .stderr(Stdio::from(std::fs::File::create(&stderr_path).expect("create stderr file")))
        .spawn()
        .expect("cannot launch zinoma-sim");
    // Wall-clock watchdog: simulated time has nothing to do with real time, a run takes
    // milliseconds; one that is still there after minutes is stuck outside the step budget
    // (a fault of the harness, reported as such - never as a violation).
    let mut out = out;
    let limit = std::time::Duration::from_secs(std::env::var("ZCHECK_RUN_TIMEOUT").ok().and_then(|s| s.parse().ok()).unwrap_or(600));
    let mut nap = std::time::Duration::from_micros(50);
    let mut timed_out = false;
    let status = loop {
        match out.try_wait() {
            Ok(Some(st)) => break st,
            Ok(None) => {
                if t0.elapsed() > limit {
                    let _ = out.kill();
                    timed_out = true;
                    break out.wait().expect("wait for zinoma-sim");
                }
                std::thread::sleep(nap);
                nap = (nap * 2).min(std::time::Duration::from_millis(5));
            }
            Err(e) => panic!("waiting for zinoma-sim: {}", e),
        }
    };
    let wall_us = t0.elapsed().as_micros() as u64;
    let code = match status.code() {
        Some(c) => c,
        None => {
            use std::os::unix::process::ExitStatusExt;
            -(status.signal().unwrap_or(0))
        }
    };
    let text = std::fs::read(&trace_path).map(|b| String::from_utf8_lossy(&b).into_owned()).unwrap_or_default();
    let mut stderr_text = std::fs::read(&stderr_path).map(|b| String::from_utf8_lossy(&b).into_owned()).unwrap_or_default();
    let code = if timed_out {
        stderr_text = format!("zinoma-sim did not end within {} s of real time (plan {}); killed by the driver's watchdog\n{}", limit.as_secs(), plan_path.display(), stderr_text);
        96
    } else {
        code
    };
    let mut r = result_from(code, stderr_text, &text, wall_us);
    if let Some(f) = &r.footer {
        r.sim_ticks = f.clock.saturating_sub(plan.clock_start);
        case.clock = case.clock.max(f.clock);
    }
    case.clock += 1;
    r
}

pub fn result_from(code: i32, stderr: String, text: &str, wall_us: u64) -> RunResult {
    let (events, footer) = parse_trace(text);
    let mut digest = simrt::stamp::FNV_INIT;
    digest = simrt::stamp::fnv(digest, text.as_bytes());
    // order hash: the sequence of (task, operation, object) of communication and external events
    let mut oh = simrt::stamp::FNV_INIT;
    for e in &events {
        match e.kind.as_str() {
            "send" | "recv" | "try_send" | "proc-spawn" | "proc-exit" | "proc-kill" | "fs-deliver" | "fs-apply" | "signal" | "send-blocked" | "blocking-run" => {
                oh = simrt::stamp::fnv(oh, e.task.as_bytes());
                oh = simrt::stamp::fnv(oh, e.kind.as_bytes());
                oh = simrt::stamp::fnv(oh, e.word(0).as_bytes());
            }
            _ => {}
        }
    }
    let procs = build_procs(&events);
    RunResult { code, stderr, events, footer, trace_digest: digest, order_hash: oh, procs, wall_us, sim_ticks: 0 }
}

pub fn read_trace_text(case: &Case, tag: &str) -> String {
    let p: &Path = &case.run_dir().join(format!("{}.trace", tag));
    std::fs::read(p).map(|b| String::from_utf8_lossy(&b).into_owned()).unwrap_or_default()
}
