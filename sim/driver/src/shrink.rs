//! Minimisation of a failing scenario: fewer steps, targets, edges, faults, plan events, and a
//! choice list driven towards zeros (zero = the plain FIFO alternative), while the same oracle
//! clause keeps firing.

use crate::engine::{Property, Stats, Violation};
use crate::scen::{Scenario, Step};
use simrt::plan::Strategy;
use std::path::Path;

struct Ctx<'a> {
    prop: &'a dyn Property,
    oracle: String,
    root: &'a Path,
    budget: usize,
    used: usize,
    deadline: std::time::Instant,
}

impl<'a> Ctx<'a> {
    fn exhausted(&self) -> bool {
        self.used >= self.budget || std::time::Instant::now() > self.deadline
    }
    fn still_fails(&mut self, sc: &Scenario) -> Option<Violation> {
        if self.used >= self.budget || std::time::Instant::now() > self.deadline {
            return None;
        }
        self.used += 1;
        let mut st = Stats::default();
        let v = self.prop.evaluate(sc, self.root, &mut st);
        match v {
            Some(v) if v.oracle == self.oracle => Some(v),
            _ => None,
        }
    }
}

fn invoke_indices(sc: &Scenario) -> Vec<usize> {
    sc.steps.iter().enumerate().filter(|(_, s)| matches!(s, Step::Invoke(_))).map(|(i, _)| i).collect()
}

fn remove_target(sc: &Scenario, p: usize, name: &str) -> Option<Scenario> {
    let mut out = sc.clone();
    let disp_q = sc.projects[p].name.as_ref().map(|n| format!("{}::{}", n, name));
    out.projects[p].targets.retain(|t| t.name != name);
    for pr in out.projects.iter_mut() {
        for t in pr.targets.iter_mut() {
            t.deps.retain(|d| !(d.project == p && d.target == name));
        }
    }
    for st in out.steps.iter_mut() {
        if let Step::Invoke(inv) = st {
            let before = inv.args.iter().filter(|a| !a.starts_with('-')).count();
            inv.args.retain(|a| !((inv.entry == p && a == name) || Some(a) == disp_q.as_ref()));
            let after = inv.args.iter().filter(|a| !a.starts_with('-')).count();
            if before > 0 && after == 0 {
                return None;
            }
            for g in inv.plan.gates.values_mut() {
                g.retain(|id| id != &format!("p{}.{}", p, name));
            }
        }
    }
    Some(out)
}

pub fn minimise(prop: &dyn Property, sc: &Scenario, v: &Violation, root: &Path, tier: &str) -> (Scenario, Violation, bool) {
    let mut ctx = Ctx {
        prop,
        oracle: v.oracle.clone(),
        root,
        budget: if tier == "quick" { 250 } else { 1200 },
        used: 0,
        deadline: std::time::Instant::now() + std::time::Duration::from_secs(if tier == "quick" { 45 } else { 240 }),
    };
    let mut best = sc.clone();
    let mut best_v = v.clone();
    // the recorded choices must reproduce the violation before anything else is tried
    match ctx.still_fails(&best) {
        Some(v2) => best_v = v2,
        None => {
            // fall back to the seed-driven plans (without the recorded lists)
            let mut plain = sc.clone();
            for st in plain.steps.iter_mut() {
                if let Step::Invoke(inv) = st {
                    inv.plan.choices = None;
                }
            }
            return (plain, v.clone(), false);
        }
    }
    let mut progress = true;
    while progress && !ctx.exhausted() {
        progress = false;
        // 1. drop steps
        let mut i = best.steps.len();
        while i > 0 {
            i -= 1;
            if best.steps.len() <= 1 {
                break;
            }
            let mut cand = best.clone();
            cand.steps.remove(i);
            if invoke_indices(&cand).is_empty() {
                continue;
            }
            if let Some(v2) = ctx.still_fails(&cand) {
                best = cand;
                best_v = v2;
                progress = true;
            }
        }
        // 2. drop targets
        for (p, name) in best.all_targets().into_iter().rev() {
            if let Some(cand) = remove_target(&best, p, &name) {
                if let Some(v2) = ctx.still_fails(&cand) {
                    best = cand;
                    best_v = v2;
                    progress = true;
                }
            }
        }
        // 3. drop edges
        for p in 0..best.projects.len() {
            for ti in 0..best.projects[p].targets.len() {
                let mut di = best.projects[p].targets[ti].deps.len();
                while di > 0 {
                    di -= 1;
                    let mut cand = best.clone();
                    cand.projects[p].targets[ti].deps.remove(di);
                    if let Some(v2) = ctx.still_fails(&cand) {
                        best = cand;
                        best_v = v2;
                        progress = true;
                    }
                }
            }
        }
        // 3b. drop initial files and variables nobody needs
        let mut fi = best.files.len();
        while fi > 0 && ctx.used < ctx.budget {
            fi -= 1;
            let mut cand = best.clone();
            cand.files.remove(fi);
            if let Some(v2) = ctx.still_fails(&cand) {
                best = cand;
                best_v = v2;
                progress = true;
            }
        }
        for k in best.vars.keys().cloned().collect::<Vec<_>>() {
            let mut cand = best.clone();
            cand.vars.remove(&k);
            if let Some(v2) = ctx.still_fails(&cand) {
                best = cand;
                best_v = v2;
                progress = true;
            }
        }
        // 4. plans: faults, events, then choices
        for si in invoke_indices(&best) {
            // faults
            loop {
                let n = match &best.steps[si] {
                    Step::Invoke(inv) => inv.plan.faults.len(),
                    _ => 0,
                };
                let mut removed = false;
                for k in (0..n).rev() {
                    let mut cand = best.clone();
                    if let Step::Invoke(inv) = &mut cand.steps[si] {
                        inv.plan.faults.remove(k);
                    }
                    if let Some(v2) = ctx.still_fails(&cand) {
                        best = cand;
                        best_v = v2;
                        removed = true;
                        progress = true;
                        break;
                    }
                }
                if !removed {
                    break;
                }
            }
            // plan events
            let n = match &best.steps[si] {
                Step::Invoke(inv) => inv.plan.events.len(),
                _ => 0,
            };
            for k in (0..n).rev() {
                let mut cand = best.clone();
                if let Step::Invoke(inv) = &mut cand.steps[si] {
                    if k < inv.plan.events.len() {
                        inv.plan.events.remove(k);
                    }
                }
                if let Some(v2) = ctx.still_fails(&cand) {
                    best = cand;
                    best_v = v2;
                    progress = true;
                }
            }
            // single operations inside the remaining fs events
            let nev = match &best.steps[si] {
                Step::Invoke(inv) => inv.plan.events.len(),
                _ => 0,
            };
            for ei in 0..nev {
                loop {
                    let nops = match &best.steps[si] {
                        Step::Invoke(inv) => match inv.plan.events.get(ei).map(|e| &e.kind) {
                            Some(simrt::plan::PlanEventKind::Fs { ops }) => ops.len(),
                            _ => 0,
                        },
                        _ => 0,
                    };
                    if nops <= 1 {
                        break;
                    }
                    let mut removed = false;
                    for oi in (0..nops).rev() {
                        let mut cand = best.clone();
                        if let Step::Invoke(inv) = &mut cand.steps[si] {
                            if let simrt::plan::PlanEventKind::Fs { ops } = &mut inv.plan.events[ei].kind {
                                ops.remove(oi);
                            }
                        }
                        if let Some(v2) = ctx.still_fails(&cand) {
                            best = cand;
                            best_v = v2;
                            removed = true;
                            progress = true;
                            break;
                        }
                    }
                    if !removed {
                        break;
                    }
                }
            }
            // choices: all-zero first
            let cur = match &best.steps[si] {
                Step::Invoke(inv) => inv.plan.choices.clone().unwrap_or_default(),
                _ => vec![],
            };
            let is_fifo = matches!(&best.steps[si], Step::Invoke(inv) if inv.plan.strategy == Strategy::Fifo && inv.plan.pad_zero);
            if !is_fifo || cur.iter().any(|&c| c != 0) {
                let mut cand = best.clone();
                if let Step::Invoke(inv) = &mut cand.steps[si] {
                    inv.plan.choices = Some(vec![]);
                    inv.plan.pad_zero = true;
                    inv.plan.strategy = Strategy::Fifo;
                }
                if let Some(v2) = ctx.still_fails(&cand) {
                    best = cand;
                    best_v = v2;
                    progress = true;
                    continue;
                }
                // keep the recorded list, pad with zeros, then zero out blocks
                let mut list = cur.clone();
                let mut cand = best.clone();
                if let Step::Invoke(inv) = &mut cand.steps[si] {
                    inv.plan.pad_zero = true;
                    inv.plan.strategy = Strategy::Fifo;
                }
                if ctx.still_fails(&cand).is_none() {
                    continue;
                }
                best = cand;
                let mut block = (list.len() / 2).max(1);
                // a run that hit its step budget records hundreds of thousands of choices:
                // delta-debugging those is pointless (and quadratic)
                if list.len() > 20_000 {
                    block = 0;
                }
                while block >= 1 && !ctx.exhausted() {
                    let mut start = 0;
                    while start < list.len() && !ctx.exhausted() {
                        let end = (start + block).min(list.len());
                        if list[start..end].iter().any(|&c| c != 0) {
                            let mut trial = list.clone();
                            for c in trial[start..end].iter_mut() {
                                *c = 0;
                            }
                            let mut cand = best.clone();
                            if let Step::Invoke(inv) = &mut cand.steps[si] {
                                inv.plan.choices = Some(trial.clone());
                            }
                            if let Some(v2) = ctx.still_fails(&cand) {
                                best = cand;
                                best_v = v2;
                                list = trial;
                                progress = true;
                            }
                        }
                        start = end;
                    }
                    if block == 1 {
                        break;
                    }
                    block /= 2;
                }
                // truncate trailing zeros
                while list.last() == Some(&0) {
                    list.pop();
                }
                let mut cand = best.clone();
                if let Step::Invoke(inv) = &mut cand.steps[si] {
                    inv.plan.choices = Some(list.clone());
                }
                if let Some(v2) = ctx.still_fails(&cand) {
                    best = cand;
                    best_v = v2;
                }
            }
        }
    }
    (best, best_v, true)
}
