//! Scenario: project files, initial tree and a history of steps. Serialisable (replay files).

use serde::{Deserialize, Serialize};
use simrt::plan::{FsOp, Plan};
use std::collections::BTreeMap;
use std::path::{Path, PathBuf};

#[derive(Serialize, Deserialize, Clone, Debug, PartialEq, Eq, Copy)]
pub enum Kind {
    Build,
    Service,
    Aggregate,
}

#[derive(Serialize, Deserialize, Clone, Debug, PartialEq)]
pub struct DepRef {
    pub project: usize,
    pub target: String,
    /// listed under `dependencies`
    pub via_dep: bool,
    /// listed as `<target>.output` under `input`
    pub via_output: bool,
    /// spelled `project::target` even when it lives in the same project
    pub qualified: bool,
}

#[derive(Serialize, Deserialize, Clone, Debug, PartialEq)]
pub enum Res {
    Paths { paths: Vec<String>, extensions: Option<Vec<String>> },
    Cmd { key: String },
}

#[derive(Serialize, Deserialize, Clone, Debug, PartialEq)]
pub struct Target {
    pub name: String,
    pub kind: Kind,
    pub deps: Vec<DepRef>,
    pub input: Vec<Res>,
    pub output: Vec<Res>,
    /// files the script writes on success, relative to the project directory
    pub writes: Vec<String>,
    /// files the script removes on success before writing (leftovers in its output directory)
    #[serde(default)]
    pub wipes: Vec<String>,
    #[serde(default)]
    pub exit: i32,
    #[serde(default)]
    pub partial: bool,
    #[serde(default)]
    pub gate: Option<String>,
    #[serde(default)]
    pub size: usize,
    #[serde(default)]
    pub inf: bool,
}

impl Target {
    pub fn new(name: &str, kind: Kind) -> Target {
        Target { name: name.to_string(), kind, deps: vec![], input: vec![], output: vec![], writes: vec![], wipes: vec![], exit: 0, partial: false, gate: None, size: 0, inf: false }
    }
}

#[derive(Serialize, Deserialize, Clone, Debug, PartialEq)]
pub struct Project {
    /// directory relative to the case root
    pub dir: String,
    pub name: Option<String>,
    /// (import key, project index)
    pub imports: Vec<(String, usize)>,
    pub targets: Vec<Target>,
    /// raw replacement for the generated zinoma.yml (C14 arrangements)
    #[serde(default)]
    pub raw_yaml: Option<String>,
    /// import key -> path to write in zinoma.yml instead of the plain relative path (e.g. a
    /// symbolic link to the imported project's directory)
    #[serde(default)]
    pub import_paths: BTreeMap<String, String>,
}

#[derive(Serialize, Deserialize, Clone, Debug, PartialEq)]
pub enum FileKind {
    File(String),
    Dir,
    Symlink(String),
    /// a named pipe (nobody ever writes to it)
    Fifo,
}

#[derive(Serialize, Deserialize, Clone, Debug, PartialEq)]
pub struct FileSpec {
    /// relative to the case root; `\xNN` escapes allowed
    pub path: String,
    pub kind: FileKind,
}

#[derive(Serialize, Deserialize, Clone, Debug, PartialEq)]
pub struct Invocation {
    /// project whose directory is passed with `-p`
    pub entry: usize,
    /// flags and targets, e.g. ["--watch", "a", "lib::b"]
    pub args: Vec<String>,
    pub hash_seed: u64,
    pub plan: Plan,
    /// metamorphic side (C20): 0 = primary tree
    #[serde(default)]
    pub side: usize,
}

#[derive(Serialize, Deserialize, Clone, Debug, PartialEq)]
pub enum Corrupt {
    Truncate(usize),
    FlipBit(usize),
    Garbage(u64),
    Empty,
    Remove,
    /// overwrite with the record of another target
    Foreign { project: usize, target: String },
}

#[derive(Serialize, Deserialize, Clone, Debug, PartialEq)]
pub enum Step {
    Invoke(Invocation),
    Fs(FsOp),
    CorruptState { project: usize, target: String, how: Corrupt },
}

#[derive(Serialize, Deserialize, Clone, Debug, PartialEq)]
pub struct Scenario {
    /// enumeration checks: restrict the enumeration to one item (set when a violation is narrowed)
    #[serde(default)]
    pub focus: Option<String>,
    pub label: String,
    pub projects: Vec<Project>,
    pub files: Vec<FileSpec>,
    pub vars: BTreeMap<String, String>,
    pub steps: Vec<Step>,
}

impl Scenario {
    /// Some imports go through a symbolic link lying in the importing project's directory
    /// (`vendor-lib -> ../p1`): the same project, reached by another route. Decided by a hash
    /// of the names, not by the generator's stream.
    pub fn import_through_links(&mut self) {
        let mut links = vec![];
        for pi in 0..self.projects.len() {
            let imports = self.projects[pi].imports.clone();
            for (key, idx) in imports {
                if idx == pi || self.projects[pi].raw_yaml.is_some() {
                    continue;
                }
                let h = simrt::stamp::fnv(simrt::stamp::FNV_INIT, format!("{}>{}>{}", self.label, self.projects[pi].dir, key).as_bytes());
                if h % 3 != 0 {
                    continue;
                }
                let link = format!("vendor-{}", key);
                links.push(FileSpec { path: format!("{}/{}", self.projects[pi].dir, link), kind: FileKind::Symlink(rel_from(&self.projects[pi].dir, &self.projects[idx].dir)) });
                self.projects[pi].import_paths.insert(key, link);
            }
        }
        self.files.extend(links);
    }
    pub fn target(&self, p: usize, name: &str) -> Option<&Target> {
        self.projects.get(p)?.targets.iter().find(|t| t.name == name)
    }
    pub fn sim_id(&self, p: usize, name: &str) -> String {
        format!("p{}.{}", p, name)
    }
    /// zinoma's display name of a target
    pub fn display(&self, p: usize, name: &str) -> String {
        match &self.projects[p].name {
            Some(n) => format!("{}::{}", n, name),
            None => name.to_string(),
        }
    }
    pub fn all_targets(&self) -> Vec<(usize, String)> {
        let mut v = vec![];
        for (pi, p) in self.projects.iter().enumerate() {
            for t in &p.targets {
                v.push((pi, t.name.clone()));
            }
        }
        v
    }
}

/// `to` expressed relative to directory `from` (both relative to the case root, no `..` inside).
pub fn rel_from(from: &str, to: &str) -> String {
    let f: Vec<&str> = from.split('/').filter(|s| !s.is_empty() && *s != ".").collect();
    let t: Vec<&str> = to.split('/').filter(|s| !s.is_empty() && *s != ".").collect();
    let mut i = 0;
    while i < f.len() && i < t.len() && f[i] == t[i] {
        i += 1;
    }
    let mut parts: Vec<String> = vec![];
    for _ in i..f.len() {
        parts.push("..".into());
    }
    for s in &t[i..] {
        parts.push((*s).to_string());
    }
    if parts.is_empty() {
        ".".into()
    } else {
        parts.join("/")
    }
}

fn res_read_entries(res: &[Res], from_dir: &str, res_dir: &str, out: &mut Vec<String>) {
    for r in res {
        if let Res::Paths { paths, extensions } = r {
            let exts: Vec<String> = extensions
                .as_ref()
                .map(|e| e.iter().filter(|x| !x.is_empty()).map(|x| if x.starts_with('.') { x.clone() } else { format!(".{}", x) }).collect())
                .unwrap_or_default();
            for p in paths {
                let abs = if res_dir.is_empty() { p.clone() } else { format!("{}/{}", res_dir, p) };
                let rel = rel_from(from_dir, &abs);
                if exts.is_empty() {
                    out.push(rel);
                } else {
                    out.push(format!("{}:{}", rel, exts.join("+")));
                }
            }
        }
    }
}

impl Scenario {
    /// The `read=` list of a target's script: its declared file inputs, own and inherited.
    pub fn read_list(&self, p: usize, t: &Target) -> Vec<String> {
        let mut out = vec![];
        let dir = &self.projects[p].dir;
        res_read_entries(&t.input, dir, dir, &mut out);
        for d in &t.deps {
            if d.via_output {
                if let Some(prod) = self.target(d.project, &d.target) {
                    res_read_entries(&prod.output, dir, &self.projects[d.project].dir, &mut out);
                }
            }
        }
        out
    }

    pub fn script(&self, p: usize, t: &Target) -> String {
        let mut s = format!("@sim id={}", self.sim_id(p, &t.name));
        if t.kind == Kind::Service {
            s.push_str(" svc");
        }
        if t.exit != 0 {
            s.push_str(&format!(" exit={}", t.exit));
        }
        if t.partial {
            s.push_str(" partial");
        }
        if t.inf && t.kind != Kind::Service {
            s.push_str(" inf");
        }
        if let Some(g) = &t.gate {
            s.push_str(&format!(" gate={}", g));
        }
        if t.size > 0 {
            s.push_str(&format!(" size={}", t.size));
        }
        let reads = self.read_list(p, t);
        if !reads.is_empty() {
            s.push_str(&format!(" read={}", reads.join(",")));
        }
        if !t.writes.is_empty() {
            s.push_str(&format!(" write={}", t.writes.join(",")));
        }
        if !t.wipes.is_empty() {
            s.push_str(&format!(" wipe={}", t.wipes.join(",")));
        }
        s
    }

    fn dep_spelling(&self, p: usize, d: &DepRef) -> String {
        if d.project != p || d.qualified {
            match &self.projects[d.project].name {
                Some(n) => format!("{}::{}", n, d.target),
                None => d.target.clone(),
            }
        } else {
            d.target.clone()
        }
    }

    pub fn yaml(&self, p: usize) -> String {
        use serde_json::{json, Map, Value};
        let proj = &self.projects[p];
        if let Some(raw) = &proj.raw_yaml {
            return raw.clone();
        }
        let mut root = Map::new();
        if let Some(n) = &proj.name {
            root.insert("name".into(), json!(n));
        }
        if !proj.imports.is_empty() {
            let mut im = Map::new();
            for (key, idx) in &proj.imports {
                im.insert(key.clone(), json!(proj.import_paths.get(key).cloned().unwrap_or_else(|| rel_from(&proj.dir, &self.projects[*idx].dir))));
            }
            root.insert("imports".into(), Value::Object(im));
        }
        let res_json = |r: &Res| -> Value {
            match r {
                Res::Paths { paths, extensions } => match extensions {
                    Some(e) => json!({"paths": paths, "extensions": e}),
                    None => json!({"paths": paths}),
                },
                // `<key>@<gate>`: the command's exit is gated on the named rendezvous set
                Res::Cmd { key } => match key.split_once('@') {
                    Some((k, g)) => json!({"cmd_stdout": format!("@cmd key={} gate={}", k, g)}),
                    None => json!({"cmd_stdout": format!("@cmd key={}", key)}),
                },
            }
        };
        let mut targets = Map::new();
        for t in &proj.targets {
            let mut m = Map::new();
            let deps: Vec<Value> = t.deps.iter().filter(|d| d.via_dep).map(|d| json!(self.dep_spelling(p, d))).collect();
            if !deps.is_empty() || t.kind == Kind::Aggregate {
                m.insert("dependencies".into(), Value::Array(deps));
            }
            if t.kind != Kind::Aggregate {
                let mut input: Vec<Value> = t.input.iter().map(res_json).collect();
                for d in t.deps.iter().filter(|d| d.via_output) {
                    input.push(json!(format!("{}.output", self.dep_spelling(p, d))));
                }
                if !input.is_empty() {
                    m.insert("input".into(), Value::Array(input));
                }
            }
            match t.kind {
                Kind::Build => {
                    if !t.output.is_empty() {
                        m.insert("output".into(), Value::Array(t.output.iter().map(res_json).collect()));
                    }
                    m.insert("build".into(), json!(self.script(p, t)));
                }
                Kind::Service => {
                    m.insert("service".into(), json!(self.script(p, t)));
                }
                Kind::Aggregate => {}
            }
            targets.insert(t.name.clone(), Value::Object(m));
        }
        root.insert("targets".into(), Value::Object(targets));
        serde_json::to_string_pretty(&Value::Object(root)).unwrap()
    }
}

pub struct Case {
    pub root: PathBuf,
    pub clock: u64,
}

impl Case {
    pub fn vars_dir(&self) -> PathBuf {
        self.root.join(".vars")
    }
    pub fn run_dir(&self) -> PathBuf {
        self.root.join(".run")
    }
    pub fn project_dir(&self, sc: &Scenario, p: usize) -> PathBuf {
        self.root.join(&sc.projects[p].dir)
    }
}

/// Creates the case directory from scratch.
pub fn materialize(sc: &Scenario, root: &Path) -> std::io::Result<Case> {
    let _ = std::fs::remove_dir_all(root);
    std::fs::create_dir_all(root)?;
    let mut case = Case { root: root.to_path_buf(), clock: 0 };
    std::fs::create_dir_all(case.vars_dir())?;
    std::fs::create_dir_all(case.run_dir())?;
    for (pi, p) in sc.projects.iter().enumerate() {
        let d = root.join(&p.dir);
        std::fs::create_dir_all(&d)?;
        // hand-written documents (`raw_yaml`) may carry `\xNN` escapes for bytes that are not valid UTF-8
        let text = sc.yaml(pi);
        if sc.projects[pi].raw_yaml.is_some() {
            std::fs::write(d.join("zinoma.yml"), simrt::vfs::decode_bytes(&text))?;
        } else {
            std::fs::write(d.join("zinoma.yml"), text)?;
        }
    }
    for f in &sc.files {
        let p = root.join(simrt::vfs::decode_path(&f.path));
        if let Some(parent) = p.parent() {
            std::fs::create_dir_all(parent)?;
        }
        match &f.kind {
            FileKind::File(c) => {
                std::fs::write(&p, c.as_bytes())?;
                case.clock += 1;
                simrt::vfs::set_mtime(&p, case.clock);
            }
            FileKind::Dir => {
                std::fs::create_dir_all(&p)?;
            }
            FileKind::Symlink(t) => {
                let _ = std::os::unix::fs::symlink(t, &p);
            }
            FileKind::Fifo => {
                use std::os::unix::ffi::OsStrExt;
                if let Ok(c) = std::ffi::CString::new(p.as_os_str().as_bytes()) {
                    unsafe {
                        libc::mkfifo(c.as_ptr(), 0o644);
                    }
                }
            }
        }
    }
    for (k, v) in &sc.vars {
        std::fs::write(case.vars_dir().join(k), simrt::vfs::decode_bytes(v))?;
    }
    case.clock += 1;
    Ok(case)
}
