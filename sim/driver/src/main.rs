#![allow(dead_code)]
mod engine;
mod gen;
mod model;
mod prng;
mod realdiff;
mod props;
mod run;
mod scen;
mod shrink;

use std::path::PathBuf;

fn usage() -> ! {
    eprintln!("usage: zcheck <ID> [--tier quick|thorough] | zcheck --replay <file> | zcheck list");
    std::process::exit(2)
}

fn main() {
    let args: Vec<String> = std::env::args().skip(1).collect();
    if args.is_empty() {
        usage();
    }
    let verif = PathBuf::from(std::env::var("ZCHECK_VERIF").unwrap_or_else(|_| "/verif".into()));
    let props = props::all();
    if args[0] == "list" {
        for p in &props {
            println!("{}", p.id());
        }
        return;
    }
    if args[0] == "selftest-determinism" {
        let n: u64 = args.get(1).and_then(|s| s.parse().ok()).unwrap_or(300);
        std::process::exit(engine::selftest_determinism(&props, n));
    }
    if args[0] == "real-diff" {
        let n: u64 = args.get(1).and_then(|s| s.parse().ok()).unwrap_or(200);
        let bin = std::env::var("ZINOMA_REAL_BIN").unwrap_or_else(|_| "/repo/target/debug/zinoma".into());
        let seed: u64 = std::env::var("VERIF_SEED").ok().and_then(|s| s.parse().ok()).unwrap_or(1);
        std::process::exit(realdiff::real_diff(n, seed, std::path::Path::new(&bin)));
    }
    if args[0] == "--replay" {
        let f = args.get(1).unwrap_or_else(|| usage());
        std::process::exit(engine::replay(&props, &PathBuf::from(f)));
    }
    let id = &args[0];
    let mut tier = std::env::var("VERIF_TIER").unwrap_or_else(|_| "quick".into());
    let mut i = 1;
    while i < args.len() {
        if args[i] == "--tier" {
            tier = args.get(i + 1).cloned().unwrap_or_else(|| usage());
            i += 1;
        }
        i += 1;
    }
    std::env::set_var("ZCHECK_TIER", &tier);
    let seed: u64 = std::env::var("VERIF_SEED").ok().and_then(|s| s.parse().ok()).unwrap_or(1);
    let prop = match props.iter().find(|p| p.id() == id) {
        Some(p) => p,
        None => {
            eprintln!("unknown property {}", id);
            std::process::exit(2)
        }
    };
    let out = engine::run_check(prop.as_ref(), &tier, seed, &verif);
    std::process::exit(out.code);
}
