//! SplitMix64: the only source of randomness in the driver.

#[derive(Clone)]
pub struct Rng(pub u64);

impl Rng {
    pub fn new(seed: u64) -> Rng {
        Rng(seed)
    }
    pub fn derive(seed: u64, tag: &str, n: u64) -> Rng {
        let mut h = simrt::stamp::fnv(simrt::stamp::FNV_INIT, tag.as_bytes());
        h = simrt::stamp::fnv(h, &seed.to_le_bytes());
        h = simrt::stamp::fnv(h, &n.to_le_bytes());
        let mut r = Rng(h);
        r.next();
        r
    }
    pub fn next(&mut self) -> u64 {
        self.0 = self.0.wrapping_add(0x9E37_79B9_7F4A_7C15);
        let mut z = self.0;
        z = (z ^ (z >> 30)).wrapping_mul(0xBF58_476D_1CE4_E5B9);
        z = (z ^ (z >> 27)).wrapping_mul(0x94D0_49BB_1331_11EB);
        z ^ (z >> 31)
    }
    pub fn below(&mut self, n: usize) -> usize {
        if n == 0 {
            0
        } else {
            (self.next() % n as u64) as usize
        }
    }
    pub fn range(&mut self, lo: usize, hi: usize) -> usize {
        lo + self.below(hi - lo + 1)
    }
    pub fn chance(&mut self, percent: usize) -> bool {
        self.below(100) < percent
    }
    pub fn pick<'a, T>(&mut self, v: &'a [T]) -> &'a T {
        &v[self.below(v.len())]
    }
    pub fn weighted(&mut self, weights: &[usize]) -> usize {
        let total: usize = weights.iter().sum();
        let mut x = self.below(total.max(1));
        for (i, w) in weights.iter().enumerate() {
            if x < *w {
                return i;
            }
            x -= w;
        }
        weights.len() - 1
    }
    pub fn shuffle<T>(&mut self, v: &mut [T]) {
        for i in (1..v.len()).rev() {
            let j = self.below(i + 1);
            v.swap(i, j);
        }
    }
}
