//! Version stamping shared by the virtual scripts (simulator side) and the reference model
//! (driver side): an output tells which input contents it was built from.

pub fn fnv(mut h: u64, bytes: &[u8]) -> u64 {
    for &b in bytes {
        h ^= b as u64;
        h = h.wrapping_mul(0x0000_0100_0000_01B3);
    }
    h
}

pub const FNV_INIT: u64 = 0xcbf2_9ce4_8422_2325;

/// Hash of a sorted list of (relative path, content).
pub fn snapshot_hash(entries: &[(Vec<u8>, Vec<u8>)]) -> u64 {
    let mut h = FNV_INIT;
    for (p, c) in entries {
        h = fnv(h, p);
        h = fnv(h, &[0]);
        h = fnv(h, &(c.len() as u64).to_le_bytes());
        h = fnv(h, c);
        h = fnv(h, &[1]);
    }
    h
}

/// Content of output `rel` of script `id` built from a read snapshot with hash `h`.
pub fn stamp(id: &str, rel: &str, h: u64, size: usize) -> Vec<u8> {
    let mut s = format!("{}|{}|{:016x}\n", id, rel, h).into_bytes();
    let mut i = 0u8;
    while s.len() < size {
        s.push(b'a' + (i % 26));
        i = i.wrapping_add(1);
    }
    s
}

/// Walk used by virtual scripts for their `read=` list. An entry is `<rel>` or
/// `<rel>:<ext>+<ext>…` (only files whose name ends with one of the extensions): regular files
/// at or below `base/rel` (symlinks to files are read, symlinked directories are not descended
/// into), pruning directories named `.zinoma`. Keys are the raw bytes of the path relative to
/// `base`.
pub fn read_tree(base: &std::path::Path, entry: &str, out: &mut Vec<(Vec<u8>, Vec<u8>)>) {
    let (rel, exts): (&str, Vec<&str>) = match entry.split_once(':') {
        Some((r, e)) => (r, e.split('+').filter(|x| !x.is_empty()).collect()),
        None => (entry, vec![]),
    };
    let (p, key) = if rel.is_empty() || rel == "." {
        (base.to_path_buf(), Vec::new())
    } else {
        (base.join(rel), rel.as_bytes().to_vec())
    };
    walk(&p, key, &exts, out);
    out.sort();
}

fn walk(p: &std::path::Path, key: Vec<u8>, exts: &[&str], out: &mut Vec<(Vec<u8>, Vec<u8>)>) {
    use std::os::unix::ffi::OsStrExt;
    let md = match std::fs::symlink_metadata(p) {
        Ok(m) => m,
        Err(_) => return,
    };
    if md.is_dir() {
        let mut names: Vec<_> = match std::fs::read_dir(p) {
            Ok(rd) => rd.filter_map(|e| e.ok()).map(|e| e.file_name()).collect(),
            Err(_) => return,
        };
        names.sort();
        for n in names {
            if n == ".zinoma" {
                continue;
            }
            let mut k = key.clone();
            if !k.is_empty() {
                k.push(b'/');
            }
            k.extend_from_slice(n.as_bytes());
            walk(&p.join(&n), k, exts, out);
        }
    } else if md.is_file() || (md.file_type().is_symlink() && std::fs::metadata(p).map(|m| m.is_file()).unwrap_or(false)) {
        if !exts.is_empty() {
            let name = p.file_name().map(|n| n.to_string_lossy().into_owned()).unwrap_or_default();
            if !exts.iter().any(|e| name.ends_with(e)) {
                return;
            }
        }
        if let Ok(c) = std::fs::read(p) {
            out.push((key, c));
        }
    }
}
