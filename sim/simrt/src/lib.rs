//! Deterministic simulation runtime for zinoma. The shim crates (`async-std`, `async-process`,
//! `notify`, `async-ctrlc`, `stderrlog`) are thin adapters over this crate.

pub mod chan;
pub mod plan;
pub mod proc;
pub mod rt;
pub mod signal;
pub mod stamp;
pub mod trace;
pub mod vfs;
pub mod worker;

use plan::PlanEventKind;
use rt::{with, EvKind, ExtEvent};

pub fn fire_event(ev: ExtEvent) {
    match ev.kind {
        EvKind::ProcExit(pid) => proc::fire_exit(pid),
        EvKind::FsDeliver { watcher, .. } => vfs::deliver(watcher),
        EvKind::Timer(id) => {
            let w = with(|rt| {
                rt.ev("timer-fired", &format!("k{}", id));
                rt.probe("timer-fired");
                rt.timers[id].0 = true;
                rt.timers[id].1.take()
            });
            if let Some(w) = w {
                w.wake();
            }
        }
        EvKind::Plan(i) => {
            let kind = with(|rt| rt.fire_plan_event(i));
            match kind {
                PlanEventKind::Fs { ops } => with(|rt| {
                    for op in &ops {
                        vfs::apply_workload_op(rt, op);
                    }
                }),
                PlanEventKind::Signal => {
                    let wakers = with(|rt| {
                        if rt.plan.knobs.sigterm && rt.signal.registered && !rt.signal.handles_term {
                            // the installed handler does not cover SIGTERM: the default action ends
                            // the process at once; whatever it had spawned keeps running (the short
                            // window before any handler is installed is not modelled, for either signal)
                            rt.ev("signal", "SIGTERM");
                            rt.ev("killed-by-signal", "SIGTERM (no handler installed for it)");
                            rt.write_footer("killed-by-signal");
                            rt.trace.flush();
                            unsafe { libc::_exit(143) }
                        }
                        rt.signal.fired = true;
                        rt.ev("signal", if rt.plan.knobs.sigterm { "SIGTERM" } else { "" });
                        if rt.plan.knobs.freeze_on_signal {
                            rt.procs.frozen = true;
                        }
                        std::mem::take(&mut rt.signal.wakers)
                    });
                    for w in wakers {
                        w.wake();
                    }
                }
            }
        }
    }
}

// ------------------------------------------------------------------ blocking operations

/// Runs `f` as one atomic "blocking pool" operation of the calling task: a scheduling point,
/// then the closure inline. `site` names the operation for faults and the trace.
pub async fn blocking_op<T>(site: &'static str, path: &std::path::Path, f: impl FnOnce() -> std::io::Result<T>) -> std::io::Result<T> {
    with(|rt| {
        if rt.trace.full {
            rt.evv("fs-issue", &format!("{} {}", site, trace::esc_path(path)));
        }
    });
    rt::sched_point(site).await;
    let fault = with(|rt| {
        vfs::note_path(rt, path);
        rt.fault(&format!("fs.{}", site))
    });
    if let Some(k) = fault {
        let errno = match k.as_str() {
            "eacces" => libc::EACCES,
            "eperm" => libc::EPERM,
            "enospc" => libc::ENOSPC,
            _ => libc::EIO,
        };
        with(|rt| rt.evv("fs-call", &format!("{} {} -> errno {}(injected)", site, trace::esc_path(path), errno)));
        return Err(std::io::Error::from_raw_os_error(errno));
    }
    let r = f();
    with(|rt| {
        if rt.trace.full {
            let res = match &r {
                Ok(_) => "ok".to_string(),
                Err(e) => format!("err({:?})", e.kind()),
            };
            rt.evv("fs-call", &format!("{} {} -> {}", site, trace::esc_path(path), res));
        }
        vfs::scan_workdirs(rt);
    });
    r
}

/// `spawn_blocking`: the closure runs on a controlled thread of its own (see `worker`); the
/// task standing for it resumes that thread one intercepted file-system call at a time.
/// With ZSIM_NO_WORKER_THREADS set the closure runs inline and atomically instead.
pub fn spawn_blocking<F, T>(f: F) -> rt::JoinHandle<T>
where
    F: FnOnce() -> T + Send + 'static,
    T: Send + 'static,
{
    if std::env::var_os("ZSIM_NO_WORKER_THREADS").is_some() {
        return rt::spawn(
            async move {
                rt::sched_point("blocking-run").await;
                with(|rt| {
                    rt.evv("blocking-run", "");
                    rt.trace.flush();
                });
                let v = f();
                with(|rt| vfs::scan_workdirs(rt));
                v
            },
            "blocking",
        );
    }
    // The thread is created when the closure is first scheduled, and only while few closure
    // threads are alive (thread ids are a system-wide resource and wide graphs have hundreds of
    // closures pending): beyond the cap a closure runs inline and atomically, as before.
    const MAX_LIVE_CLOSURE_THREADS: usize = 6;
    let mut pending: Option<F> = Some(f);
    let mut w: Option<worker::Worker<T>> = None;
    rt::spawn(
        std::future::poll_fn(move |cx| {
            if rt::poll_sched_point(cx, "blocking-step").is_pending() {
                return std::task::Poll::Pending;
            }
            with(|rt| {
                rt.evv("blocking-run", "");
                rt.trace.flush();
            });
            if let Some(f) = pending.take() {
                let live = with(|rt| rt.live_closure_threads);
                if live >= MAX_LIVE_CLOSURE_THREADS {
                    let v = f();
                    with(|rt| {
                        rt.probe("blocking-closure-ran-inline");
                        vfs::scan_workdirs(rt)
                    });
                    return std::task::Poll::Ready(v);
                }
                with(|rt| rt.live_closure_threads += 1);
                w = Some(worker::start(f));
            }
            let wk = w.as_ref().expect("zsim: blocking closure polled after completion");
            let stopped = wk.step();
            // what the closure logged and wrote while it ran
            let logs: Vec<String> = std::mem::take(&mut *worker::PENDING_LOGS.lock().unwrap());
            with(|rt| {
                for l in logs {
                    rt.ev("log", &l);
                }
                vfs::scan_workdirs(rt);
            });
            match stopped {
                Some(site) if site == worker::BLOCKED_FOREVER => {
                    // not woken again: the task standing for the closure never becomes ready
                    with(|rt| rt.ev("fs-call", "open of a named pipe without a writer: the blocking closure never returns"));
                    std::task::Poll::Pending
                }
                Some(site) => {
                    // the thread is parked BEFORE the call: the fault plan may make it fail
                    // (`sys.<call>`: eio / enospc / eacces), be interrupted (eintr) or, for
                    // write(2), accept only part of the buffer (short)
                    let inj = with(|rt| {
                        rt.probe("blocking-closure-yielded-at-fs-call");
                        rt.evv("blocking-yield", site);
                        if site == "start" || site == "stat" {
                            None
                        } else {
                            rt.probe(match site {
                                "write" => "closure-syscall-write",
                                "open-for-write" => "closure-syscall-open-for-write",
                                _ => "closure-syscall-other",
                            });
                            rt.fault(&format!("sys.{}", site))
                        }
                    });
                    if let Some(k) = inj {
                        wk.handoff.inject.store(worker::inject_code(&k), std::sync::atomic::Ordering::SeqCst);
                    }
                    cx.waker().wake_by_ref();
                    std::task::Poll::Pending
                }
                None => {
                    with(|rt| rt.live_closure_threads -= 1);
                    let out = wk.result.lock().unwrap().take().expect("zsim: blocking closure finished without a result");
                    w = None;
                    match out {
                        Ok(v) => std::task::Poll::Ready(v),
                        Err(p) => std::panic::resume_unwind(p),
                    }
                }
            }
        }),
        "blocking",
    )
}

// ------------------------------------------------------------------ logging

struct SimLogger {
    stderr_level: log::LevelFilter,
    module: String,
}

impl log::Log for SimLogger {
    fn enabled(&self, m: &log::Metadata) -> bool {
        m.target().starts_with(&self.module)
    }
    fn log(&self, r: &log::Record) {
        if !self.enabled(r.metadata()) {
            return;
        }
        let msg = format!("{}", r.args());
        if r.level() <= self.stderr_level {
            eprintln!("{} - {}", r.level(), msg);
        }
        let line = format!("{} {}", r.level(), strip_durations(&trace::esc(&msg)));
        if worker::on_worker_thread() {
            worker::PENDING_LOGS.lock().unwrap().push(line);
            return;
        }
        let _ = rt::try_with(|rt| rt.ev("log", &line));
    }
    fn flush(&self) {}
}

/// `(took: 12ms)` is the only wall-clock value in zinoma's log output.
fn strip_durations(s: &str) -> String {
    match (s.find("(took: "), s.rfind("ms)")) {
        (Some(a), Some(b)) if b > a => format!("{}(took: _ms){}", &s[..a], &s[b + 3..]),
        _ => s.to_string(),
    }
}

pub fn init_logger(module: &str, verbosity: usize) -> Result<(), log::SetLoggerError> {
    let stderr_level = match verbosity {
        0 => log::LevelFilter::Error,
        1 => log::LevelFilter::Warn,
        2 => log::LevelFilter::Info,
        3 => log::LevelFilter::Debug,
        _ => log::LevelFilter::Trace,
    };
    log::set_max_level(log::LevelFilter::Trace);
    log::set_boxed_logger(Box::new(SimLogger { stderr_level, module: module.to_string() }))
}

// ------------------------------------------------------------------ hash seed

/// Interposes libc's `getrandom`: std's `RandomState` keys become a function of ZSIM_HASHSEED.
/// Without that variable the real system call is made.
///
/// # Safety
/// Same contract as getrandom(2).
#[no_mangle]
pub unsafe extern "C" fn getrandom(buf: *mut libc::c_void, buflen: libc::size_t, flags: libc::c_uint) -> libc::ssize_t {
    static mut COUNTER: u64 = 0;
    let v = libc::getenv(c"ZSIM_HASHSEED".as_ptr());
    if v.is_null() {
        return libc::syscall(libc::SYS_getrandom, buf, buflen, flags) as libc::ssize_t;
    }
    let mut seed: u64 = 0;
    let mut p = v as *const u8;
    while *p != 0 {
        seed = seed.wrapping_mul(10).wrapping_add((*p).wrapping_sub(b'0') as u64);
        p = p.add(1);
    }
    let out = buf as *mut u8;
    let mut state = seed ^ 0x6a09_e667_f3bc_c908;
    for i in 0..buflen {
        if i % 8 == 0 {
            COUNTER = COUNTER.wrapping_add(1);
            state = state.wrapping_add(0x9E37_79B9_7F4A_7C15).wrapping_add(COUNTER);
        }
        let mut z = state;
        z = (z ^ (z >> 30)).wrapping_mul(0xBF58_476D_1CE4_E5B9);
        z = (z ^ (z >> 27)).wrapping_mul(0x94D0_49BB_1331_11EB);
        z ^= z >> 31;
        *out.add(i) = (z >> ((i % 8) * 8)) as u8;
    }
    buflen as libc::ssize_t
}

// ------------------------------------------------------------------ timers

/// A timer in simulated time: durations are abstract, the scheduler decides when it expires
/// (a machine can always be slow enough for any timeout to fire first).
pub struct Timer {
    id: usize,
}

pub fn timer(label: &str) -> Timer {
    with(|rt| {
        let id = rt.timers.len();
        rt.timers.push((false, None));
        rt.add_event(EvKind::Timer(id));
        rt.evv("timer-new", &format!("k{} {}", id, label));
        Timer { id }
    })
}

impl std::future::Future for Timer {
    type Output = ();
    fn poll(self: std::pin::Pin<&mut Self>, cx: &mut std::task::Context<'_>) -> std::task::Poll<()> {
        with(|rt| {
            if rt.timers[self.id].0 {
                std::task::Poll::Ready(())
            } else {
                rt.timers[self.id].1 = Some(cx.waker().clone());
                rt.note_parked("timer");
                std::task::Poll::Pending
            }
        })
    }
}

impl Drop for Timer {
    fn drop(&mut self) {
        let id = self.id;
        let _ = rt::try_with(|rt| rt.events.retain(|e| !matches!(e.kind, EvKind::Timer(k) if k == id)));
    }
}
