//! Blocking-pool closures on real threads under the simulator's control.
//!
//! A `spawn_blocking` closure runs on its own OS thread, but only while the executor thread is
//! parked waiting for it: the two hand the turn back and forth, so exactly one thread runs at
//! any time and the execution stays a pure function of the choice stream. The closure thread
//! gives the turn back at every *intercepted file-system call* (the libc symbols below are
//! interposed at link time, like `getrandom`): `mkdir`, `rename`, `unlink`, `rmdir`, opening a
//! file for writing, `write` to a file, and `stat` of anything under a `.zinoma` directory.
//! Each hand-back is a scheduling point - other tasks, other closures, external events, a crash
//! - so races *between* two blocking closures (check-then-create, shared temporary files) and
//! torn record writes become reachable.

use std::cell::Cell;
use std::sync::{Arc, Condvar, Mutex};

#[derive(Debug)]
pub enum Turn {
    /// the closure thread may run
    Worker,
    /// the closure thread stopped at an intercepted call
    Yielded(&'static str),
    /// the closure returned (or panicked)
    Done,
}

pub struct Handoff {
    pub turn: Mutex<Turn>,
    pub cv: Condvar,
}

thread_local! {
    static MY: Cell<*const Handoff> = const { Cell::new(std::ptr::null()) };
}

/// Logs produced on closure threads, drained by the executor after each step.
pub static PENDING_LOGS: Mutex<Vec<String>> = Mutex::new(Vec::new());

pub fn on_worker_thread() -> bool {
    MY.try_with(|m| !m.get().is_null()).unwrap_or(false)
}

/// Called from the interposed libc functions.
fn yield_point(site: &'static str) {
    let h = match MY.try_with(|m| m.get()) {
        Ok(p) if !p.is_null() => p,
        _ => return,
    };
    // SAFETY: the Handoff outlives the thread (an Arc clone is kept by the thread closure)
    let h: &Handoff = unsafe { &*h };
    let mut t = h.turn.lock().unwrap();
    *t = Turn::Yielded(site);
    h.cv.notify_all();
    while !matches!(*t, Turn::Worker) {
        t = h.cv.wait(t).unwrap();
    }
}

pub struct Worker<T> {
    pub handoff: Arc<Handoff>,
    pub result: Arc<Mutex<Option<std::thread::Result<T>>>>,
}

pub fn start<F, T>(f: F) -> Worker<T>
where
    F: FnOnce() -> T + Send + 'static,
    T: Send + 'static,
{
    let handoff = Arc::new(Handoff { turn: Mutex::new(Turn::Yielded("start")), cv: Condvar::new() });
    let result = Arc::new(Mutex::new(None));
    let h2 = handoff.clone();
    let r2 = result.clone();
    std::thread::Builder::new()
        .name("zsim-blocking".into())
        .stack_size(256 * 1024)
        .spawn(move || {
            MY.with(|m| m.set(Arc::as_ptr(&h2)));
            {
                let mut t = h2.turn.lock().unwrap();
                while !matches!(*t, Turn::Worker) {
                    t = h2.cv.wait(t).unwrap();
                }
            }
            let out = std::panic::catch_unwind(std::panic::AssertUnwindSafe(f));
            *r2.lock().unwrap() = Some(out);
            MY.with(|m| m.set(std::ptr::null()));
            let mut t = h2.turn.lock().unwrap();
            *t = Turn::Done;
            h2.cv.notify_all();
        })
        .expect("zsim: cannot start a blocking-pool thread");
    Worker { handoff, result }
}

impl<T> Worker<T> {
    /// Executor side: let the closure thread run until its next intercepted call or its end.
    /// Returns the site it stopped at, or None when it finished.
    pub fn step(&self) -> Option<&'static str> {
        let mut t = self.handoff.turn.lock().unwrap();
        if matches!(*t, Turn::Done) {
            return None;
        }
        *t = Turn::Worker;
        self.handoff.cv.notify_all();
        while matches!(*t, Turn::Worker) {
            t = self.handoff.cv.wait(t).unwrap();
        }
        match *t {
            Turn::Yielded(s) => Some(s),
            _ => None,
        }
    }
}

// ------------------------------------------------------------------ interposed libc symbols

unsafe fn path_has_workdir(p: *const libc::c_char) -> bool {
    if p.is_null() {
        return false;
    }
    let b = std::ffi::CStr::from_ptr(p).to_bytes();
    b.windows(8).any(|w| w == b"/.zinoma")
}

/// # Safety
/// Same contract as mkdir(2).
#[no_mangle]
pub unsafe extern "C" fn mkdir(path: *const libc::c_char, mode: libc::mode_t) -> libc::c_int {
    yield_point("mkdir");
    libc::syscall(libc::SYS_mkdir, path, mode as libc::c_uint) as libc::c_int
}

/// # Safety
/// Same contract as rename(2).
#[no_mangle]
pub unsafe extern "C" fn rename(from: *const libc::c_char, to: *const libc::c_char) -> libc::c_int {
    yield_point("rename");
    libc::syscall(libc::SYS_rename, from, to) as libc::c_int
}

/// # Safety
/// Same contract as unlink(2).
#[no_mangle]
pub unsafe extern "C" fn unlink(path: *const libc::c_char) -> libc::c_int {
    yield_point("unlink");
    libc::syscall(libc::SYS_unlink, path) as libc::c_int
}

/// # Safety
/// Same contract as rmdir(2).
#[no_mangle]
pub unsafe extern "C" fn rmdir(path: *const libc::c_char) -> libc::c_int {
    yield_point("rmdir");
    libc::syscall(libc::SYS_rmdir, path) as libc::c_int
}

/// # Safety
/// Same contract as open(2).
#[no_mangle]
pub unsafe extern "C" fn open64(path: *const libc::c_char, flags: libc::c_int, mode: libc::mode_t) -> libc::c_int {
    if flags & (libc::O_WRONLY | libc::O_RDWR | libc::O_CREAT | libc::O_TRUNC) != 0 {
        yield_point("open-for-write");
    }
    libc::syscall(libc::SYS_openat, libc::AT_FDCWD, path, flags | libc::O_LARGEFILE, mode as libc::c_uint) as libc::c_int
}

/// # Safety
/// Same contract as write(2).
#[no_mangle]
pub unsafe extern "C" fn write(fd: libc::c_int, buf: *const libc::c_void, n: libc::size_t) -> libc::ssize_t {
    if fd > 2 {
        yield_point("write");
    }
    libc::syscall(libc::SYS_write, fd, buf, n) as libc::ssize_t
}

/// # Safety
/// Same contract as statx(2).
#[no_mangle]
pub unsafe extern "C" fn statx(dirfd: libc::c_int, path: *const libc::c_char, flags: libc::c_int, mask: libc::c_uint, buf: *mut libc::statx) -> libc::c_int {
    if path_has_workdir(path) {
        yield_point("stat");
    }
    libc::syscall(libc::SYS_statx, dirfd, path, flags, mask, buf) as libc::c_int
}
