//! Blocking-pool closures on real threads under the simulator's control.
//!
//! A `spawn_blocking` closure runs on its own OS thread, but only while the executor thread is
//! parked waiting for it: the two hand the turn back and forth, so exactly one thread runs at
//! any time and the execution stays a pure function of the choice stream. The closure thread
//! gives the turn back at every *intercepted file-system call* (the libc symbols below are
//! interposed at link time, like `getrandom`): `mkdir`, `rename`, `unlink`, `rmdir`, opening a
//! file for writing, `write` to a file, and `stat` of anything under a `.zinoma` directory.
//! Each hand-back is a scheduling point - other tasks, other closures, external events, a crash
//! - so races *between* two blocking closures (check-then-create, shared temporary files) and
//! torn record writes become reachable.

use std::cell::Cell;
use std::sync::{Arc, Condvar, Mutex};

#[derive(Debug)]
pub enum Turn {
    /// the closure thread may run
    Worker,
    /// the closure thread stopped at an intercepted call
    Yielded(&'static str),
    /// the closure returned (or panicked)
    Done,
}

pub struct Handoff {
    pub turn: Mutex<Turn>,
    pub cv: Condvar,
    /// what the intercepted call the thread is parked before must do instead of succeeding
    /// (set by the executor from the fault plan, consumed by the call): see `INJ_*`
    pub inject: std::sync::atomic::AtomicU8,
}

/// site reported by a closure thread that will never get any further (see `open64`)
pub const BLOCKED_FOREVER: &str = "open-fifo-blocks-for-ever";

pub const INJ_NONE: u8 = 0;
/// the call fails with this errno
pub const INJ_EIO: u8 = 1;
pub const INJ_ENOSPC: u8 = 2;
pub const INJ_EACCES: u8 = 3;
/// the call is interrupted by a signal handler before it did anything (EINTR): legal at any time
pub const INJ_EINTR: u8 = 4;
/// write(2) accepts only part of the buffer (legal at any time: a nearly full disk, a signal)
pub const INJ_SHORT: u8 = 5;

pub fn inject_code(kind: &str) -> u8 {
    match kind {
        "enospc" => INJ_ENOSPC,
        "eacces" => INJ_EACCES,
        "eintr" => INJ_EINTR,
        "short" => INJ_SHORT,
        _ => INJ_EIO,
    }
}

thread_local! {
    static MY: Cell<*const Handoff> = const { Cell::new(std::ptr::null()) };
}

/// Logs produced on closure threads, drained by the executor after each step.
pub static PENDING_LOGS: Mutex<Vec<String>> = Mutex::new(Vec::new());

pub fn on_worker_thread() -> bool {
    MY.try_with(|m| !m.get().is_null()).unwrap_or(false)
}

/// Called from the interposed libc functions. Returns what the call has to do (`INJ_*`).
fn yield_point(site: &'static str) -> u8 {
    let h = match MY.try_with(|m| m.get()) {
        Ok(p) if !p.is_null() => p,
        _ => return INJ_NONE,
    };
    // SAFETY: the Handoff outlives the thread (an Arc clone is kept by the thread closure)
    let h: &Handoff = unsafe { &*h };
    let mut t = h.turn.lock().unwrap();
    *t = Turn::Yielded(site);
    h.cv.notify_all();
    while !matches!(*t, Turn::Worker) {
        t = h.cv.wait(t).unwrap();
    }
    h.inject.swap(INJ_NONE, std::sync::atomic::Ordering::SeqCst)
}

/// errno + -1 for an injected failure, None when the call goes ahead
unsafe fn injected_failure(code: u8) -> Option<libc::c_int> {
    let e = match code {
        INJ_EIO => libc::EIO,
        INJ_ENOSPC => libc::ENOSPC,
        INJ_EACCES => libc::EACCES,
        INJ_EINTR => libc::EINTR,
        _ => return None,
    };
    *libc::__errno_location() = e;
    Some(-1)
}

pub struct Worker<T> {
    pub handoff: Arc<Handoff>,
    pub result: Arc<Mutex<Option<std::thread::Result<T>>>>,
}

pub fn start<F, T>(f: F) -> Worker<T>
where
    F: FnOnce() -> T + Send + 'static,
    T: Send + 'static,
{
    let handoff = Arc::new(Handoff { turn: Mutex::new(Turn::Yielded("start")), cv: Condvar::new(), inject: std::sync::atomic::AtomicU8::new(INJ_NONE) });
    let result = Arc::new(Mutex::new(None));
    let h2 = handoff.clone();
    let r2 = result.clone();
    std::thread::Builder::new()
        .name("zsim-blocking".into())
        .stack_size(256 * 1024)
        .spawn(move || {
            MY.with(|m| m.set(Arc::as_ptr(&h2)));
            {
                let mut t = h2.turn.lock().unwrap();
                while !matches!(*t, Turn::Worker) {
                    t = h2.cv.wait(t).unwrap();
                }
            }
            let out = std::panic::catch_unwind(std::panic::AssertUnwindSafe(f));
            *r2.lock().unwrap() = Some(out);
            MY.with(|m| m.set(std::ptr::null()));
            let mut t = h2.turn.lock().unwrap();
            *t = Turn::Done;
            h2.cv.notify_all();
        })
        .expect("zsim: cannot start a blocking-pool thread");
    Worker { handoff, result }
}

impl<T> Worker<T> {
    /// Executor side: let the closure thread run until its next intercepted call or its end.
    /// Returns the site it stopped at, or None when it finished.
    pub fn step(&self) -> Option<&'static str> {
        let mut t = self.handoff.turn.lock().unwrap();
        if matches!(*t, Turn::Done) {
            return None;
        }
        *t = Turn::Worker;
        self.handoff.cv.notify_all();
        while matches!(*t, Turn::Worker) {
            t = self.handoff.cv.wait(t).unwrap();
        }
        match *t {
            Turn::Yielded(s) => Some(s),
            _ => None,
        }
    }
}

// ------------------------------------------------------------------ interposed libc symbols

unsafe fn path_has_workdir(p: *const libc::c_char) -> bool {
    if p.is_null() {
        return false;
    }
    let b = std::ffi::CStr::from_ptr(p).to_bytes();
    b.windows(8).any(|w| w == b"/.zinoma")
}

/// # Safety
/// Same contract as mkdir(2).
#[no_mangle]
pub unsafe extern "C" fn mkdir(path: *const libc::c_char, mode: libc::mode_t) -> libc::c_int {
    if let Some(r) = injected_failure(yield_point("mkdir")) {
        return r;
    }
    libc::syscall(libc::SYS_mkdir, path, mode as libc::c_uint) as libc::c_int
}

/// # Safety
/// Same contract as rename(2).
#[no_mangle]
pub unsafe extern "C" fn rename(from: *const libc::c_char, to: *const libc::c_char) -> libc::c_int {
    if let Some(r) = injected_failure(yield_point("rename")) {
        return r;
    }
    libc::syscall(libc::SYS_rename, from, to) as libc::c_int
}

/// # Safety
/// Same contract as unlink(2).
#[no_mangle]
pub unsafe extern "C" fn unlink(path: *const libc::c_char) -> libc::c_int {
    if let Some(r) = injected_failure(yield_point("unlink")) {
        return r;
    }
    libc::syscall(libc::SYS_unlink, path) as libc::c_int
}

/// # Safety
/// Same contract as rmdir(2).
#[no_mangle]
pub unsafe extern "C" fn rmdir(path: *const libc::c_char) -> libc::c_int {
    if let Some(r) = injected_failure(yield_point("rmdir")) {
        return r;
    }
    libc::syscall(libc::SYS_rmdir, path) as libc::c_int
}

/// # Safety
/// Same contract as open(2).
#[no_mangle]
pub unsafe extern "C" fn open64(path: *const libc::c_char, flags: libc::c_int, mode: libc::mode_t) -> libc::c_int {
    if flags & (libc::O_WRONLY | libc::O_RDWR | libc::O_NONBLOCK) == 0 && on_worker_thread() && !path.is_null() {
        // opening a named pipe for reading blocks until somebody opens it for writing: nobody
        // will. The closure never returns; the executor is told and does not resume it, so the
        // task waiting for it shows up as an exact stall instead of a hung simulator.
        let mut st: libc::stat = std::mem::zeroed();
        if libc::stat(path, &mut st) == 0 && (st.st_mode & libc::S_IFMT) == libc::S_IFIFO {
            loop {
                let _ = yield_point(BLOCKED_FOREVER);
            }
        }
    }
    if flags & (libc::O_WRONLY | libc::O_RDWR | libc::O_CREAT | libc::O_TRUNC) != 0 {
        if let Some(r) = injected_failure(yield_point("open-for-write")) {
            return r;
        }
    }
    libc::syscall(libc::SYS_openat, libc::AT_FDCWD, path, flags | libc::O_LARGEFILE, mode as libc::c_uint) as libc::c_int
}

/// # Safety
/// Same contract as write(2).
#[no_mangle]
pub unsafe extern "C" fn write(fd: libc::c_int, buf: *const libc::c_void, n: libc::size_t) -> libc::ssize_t {
    let mut n = n;
    if fd > 2 {
        let code = yield_point("write");
        if code == INJ_SHORT {
            n = (n / 2).max(1).min(n);
        } else if let Some(r) = injected_failure(code) {
            return r as libc::ssize_t;
        }
    }
    libc::syscall(libc::SYS_write, fd, buf, n) as libc::ssize_t
}

/// # Safety
/// Same contract as statx(2).
#[no_mangle]
pub unsafe extern "C" fn statx(dirfd: libc::c_int, path: *const libc::c_char, flags: libc::c_int, mask: libc::c_uint, buf: *mut libc::statx) -> libc::c_int {
    if path_has_workdir(path) {
        let _ = yield_point("stat");
    }
    libc::syscall(libc::SYS_statx, dirfd, path, flags, mask, buf) as libc::c_int
}
