//! Virtual SIGINT/SIGTERM.
use std::task::Waker;

#[derive(Default)]
pub struct SignalState {
    pub fired: bool,
    pub registered: bool,
    /// the handler also covers SIGTERM / SIGHUP (the `termination` feature of the ctrlc crate)
    pub handles_term: bool,
    pub wakers: Vec<Waker>,
}
