//! Virtual SIGINT/SIGTERM.
use std::task::Waker;

#[derive(Default)]
pub struct SignalState {
    pub fired: bool,
    pub registered: bool,
    pub wakers: Vec<Waker>,
}
