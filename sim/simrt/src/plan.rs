//! The plan of one simulated invocation: everything the simulator needs besides zinoma's argv.
//! Written by the driver (JSON, file named by ZSIM_PLAN), read once by the runtime.

use serde::{Deserialize, Serialize};
use std::collections::BTreeMap;

#[derive(Serialize, Deserialize, Clone, Debug, PartialEq)]
#[serde(tag = "kind", rename_all = "kebab-case")]
pub enum Strategy {
    /// all-zero stream: oldest ready task first, external events only when nothing else can run
    Fifo,
    /// uniform among candidates; pre-empt at a scheduling point with the given probability
    Random { preempt_permille: u32 },
    /// PCT-style random priorities with `d` priority-change points within `len` decisions
    Pct { d: u32, len: u64 },
    /// hold one victim (task index modulo live tasks, or all external events) for a window
    Delay { victim: u32, from: u64, len: u64, events: bool },
}

impl Default for Strategy {
    fn default() -> Self {
        Strategy::Fifo
    }
}

#[derive(Serialize, Deserialize, Clone, Debug, Default, PartialEq)]
pub struct Knobs {
    /// search heuristic only: capacity used instead of the shipped 64 for `bounded(64)`
    #[serde(default)]
    pub cap_override: Option<usize>,
    /// number of shuffles burnt on the futures `select!` PRNG before the run starts
    #[serde(default)]
    pub select_burn: u32,
    /// executor steps after which the run is abandoned (exit 98)
    #[serde(default)]
    pub step_budget: u64,
    /// record `poll-empty` events (needed by the C01 watch barrier)
    #[serde(default)]
    pub trace_poll_empty: bool,
    /// once the signal fired, build/service scripts never exit by themselves (C10)
    #[serde(default)]
    pub freeze_on_signal: bool,
    /// once any script failed, build/service scripts never exit by themselves (C10 failure path)
    #[serde(default)]
    pub freeze_on_failure: bool,
    /// number of executor worker threads modelled (0 = unlimited). It only matters when a task
    /// BLOCKS its worker (a nested `block_on`): with every worker blocked no other task runs
    #[serde(default)]
    pub workers: u32,
    /// the termination signal of this run is SIGTERM rather than SIGINT
    #[serde(default)]
    pub sigterm: bool,
    /// record full trace (false: only process, log, fs, signal and verdict events)
    #[serde(default)]
    pub full_trace: bool,
}

#[derive(Serialize, Deserialize, Clone, Debug, PartialEq)]
pub struct Fault {
    /// `proc.spawn:<id>`, `proc.exit:<id>`, `fs.<op>` (op = metadata, open, read, remove_file, …)
    pub site: String,
    /// 1-based occurrence of that site in this invocation
    pub occurrence: u32,
    /// `eagain` (spawn), `exit=<n>` / `sig=<n>` (proc.exit), `eio` / `short` (fs)
    pub kind: String,
}

#[derive(Serialize, Deserialize, Clone, Debug, PartialEq)]
#[serde(rename_all = "kebab-case")]
pub enum Gate {
    /// enabled from the n-th quiescence on (1-based)
    Quiescence(u32),
    /// enabled while the `nth` (1-based, 0 = any) instance of the script with this id is running
    Running { id: String, nth: u32 },
    /// enabled once the event with this id has fired
    After(String),
    /// enabled once the decision counter reached this value
    Step(u64),
    /// enabled once the script with this id has exited `n` times (successfully or not)
    Exited { id: String, n: u32 },
    /// enabled at a quiescence at which every other (non-idle) plan event has fired
    Idle,
    /// enabled immediately
    Now,
}

#[derive(Serialize, Deserialize, Clone, Debug, PartialEq)]
#[serde(tag = "op", rename_all = "kebab-case")]
pub enum FsOp {
    /// truncate + write (in place; the file must exist unless `create`)
    Write { path: String, content: String },
    Append { path: String, content: String },
    /// new mtime, same content
    Touch { path: String },
    /// new content, mtime restored to what it was
    WriteKeepMtime { path: String, content: String },
    /// same-length in-place rewrite through a shared memory mapping: inotify reports no
    /// IN_MODIFY for it, only IN_CLOSE_WRITE when the descriptor is closed
    WriteMmap { path: String, content: String },
    /// new content with an mtime OLDER than the current one (an older revision moved in place)
    WriteOlder { path: String, content: String },
    /// new content with a modification time before 1970 (an old archive unpacked with its dates
    /// kept): no duration since the epoch exists for it
    WriteAncient { path: String, content: String },
    Create { path: String, content: String },
    Delete { path: String },
    Rename { from: String, to: String },
    /// set the driver-controlled variable printed by `@cmd key=<k>`
    SetVar { key: String, value: String },
}

#[derive(Serialize, Deserialize, Clone, Debug, PartialEq)]
#[serde(tag = "kind", rename_all = "kebab-case")]
pub enum PlanEventKind {
    Fs { ops: Vec<FsOp> },
    Signal,
}

#[derive(Serialize, Deserialize, Clone, Debug, PartialEq)]
pub struct PlanEvent {
    pub id: String,
    #[serde(flatten)]
    pub kind: PlanEventKind,
    pub gate: Gate,
}

#[derive(Serialize, Deserialize, Clone, Debug, Default, PartialEq)]
pub struct Plan {
    pub seed: u64,
    #[serde(default)]
    pub strategy: Strategy,
    #[serde(default)]
    pub knobs: Knobs,
    #[serde(default)]
    pub faults: Vec<Fault>,
    /// `_exit(137)` when the decision counter reaches this value
    #[serde(default)]
    pub crash_at: Option<u64>,
    #[serde(default)]
    pub events: Vec<PlanEvent>,
    /// named rendezvous sets for `gate=<name>` in the script DSL
    #[serde(default)]
    pub gates: BTreeMap<String, Vec<String>>,
    /// recorded choice list (replay / shrinking); the PRNG is not consulted while it lasts
    #[serde(default)]
    pub choices: Option<Vec<u32>>,
    /// after the recorded list is exhausted: true = answer 0, false = fall back to the strategy
    #[serde(default)]
    pub pad_zero: bool,
    /// first value of the logical clock (mtimes written in this invocation are larger)
    #[serde(default)]
    pub clock_start: u64,
    /// directory holding the `@cmd` variables
    #[serde(default)]
    pub vars_dir: String,
    /// case root, replaced by `$ROOT` in the trace
    #[serde(default)]
    pub root: String,
}
