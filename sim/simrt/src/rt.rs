//! Single-threaded deterministic executor, choice stream, external events.

use crate::plan::{Gate, Plan, PlanEventKind, Strategy};
use crate::trace::Trace;
use std::cell::RefCell;
use std::collections::{BTreeMap, VecDeque};
use std::future::Future;
use std::pin::Pin;
use std::sync::atomic::{AtomicBool, Ordering};
use std::sync::{Arc, Mutex};
use std::task::{Context, Poll, Wake, Waker};

pub struct SplitMix(pub u64);
impl SplitMix {
    pub fn next(&mut self) -> u64 {
        self.0 = self.0.wrapping_add(0x9E37_79B9_7F4A_7C15);
        let mut z = self.0;
        z = (z ^ (z >> 30)).wrapping_mul(0xBF58_476D_1CE4_E5B9);
        z = (z ^ (z >> 27)).wrapping_mul(0x94D0_49BB_1331_11EB);
        z ^ (z >> 31)
    }
    pub fn below(&mut self, n: u64) -> u64 {
        if n == 0 {
            0
        } else {
            self.next() % n
        }
    }
}

static WAKE_QUEUE: Mutex<VecDeque<usize>> = Mutex::new(VecDeque::new());

struct TaskWaker {
    id: usize,
    queued: Arc<AtomicBool>,
}
impl Wake for TaskWaker {
    fn wake(self: Arc<Self>) {
        self.wake_by_ref()
    }
    fn wake_by_ref(self: &Arc<Self>) {
        if !self.queued.swap(true, Ordering::SeqCst) {
            WAKE_QUEUE.lock().unwrap().push_back(self.id);
        }
    }
}

pub type BoxFut = Pin<Box<dyn Future<Output = ()>>>;

pub struct Task {
    fut: Option<BoxFut>,
    queued: Arc<AtomicBool>,
    waker: Waker,
    pub prio: u64,
    pub done: bool,
    pub last_site: String,
    pub label: String,
}

#[derive(Clone, Debug)]
pub enum EvKind {
    ProcExit(usize),
    FsDeliver { watcher: usize, paths: Vec<std::path::PathBuf> },
    Plan(usize),
    /// a timer (timeout / sleep) expires; when is the scheduler's choice
    Timer(usize),
}

pub struct ExtEvent {
    pub id: usize,
    pub kind: EvKind,
    pub prio: u64,
}

pub struct Rt {
    pub plan: Plan,
    pub trace: Trace,
    rng: SplitMix,
    choices_pos: usize,
    pub choices_out: Vec<u32>,
    pub decisions: u64,
    pub steps: u64,
    pub tasks: Vec<Task>,
    ready: VecDeque<usize>,
    pub current: Option<usize>,
    pub events: Vec<ExtEvent>,
    next_event_id: usize,
    pub quiescence: u32,
    pub plan_fired: Vec<bool>,
    pub clock: u64,
    pub procs: crate::proc::Procs,
    pub vfs: crate::vfs::Vfs,
    pub signal: crate::signal::SignalState,
    pub fault_counts: BTreeMap<String, u32>,
    pub faults_fired: BTreeMap<String, u32>,
    pub probes: BTreeMap<String, u64>,
    pub chan_count: usize,
    pct_changes: Vec<u64>,
    root_done: bool,
    pub active: bool,
    idle_marker: bool,
    forced: Option<usize>,
    pub preempted_in_poll: bool,
    pub in_callback: bool,
    pub blocked_workers: u32,
    pub live_closure_threads: usize,
    /// timers: (fired, waker of the waiting future)
    pub timers: Vec<(bool, Option<Waker>)>,
}

thread_local! {
    static RT: RefCell<Option<Rt>> = const { RefCell::new(None) };
}

pub fn with<R>(f: impl FnOnce(&mut Rt) -> R) -> R {
    RT.with(|cell| {
        let mut b = cell.borrow_mut();
        if b.is_none() {
            *b = Some(Rt::from_env());
        }
        f(b.as_mut().unwrap())
    })
}

/// Like `with`, but does nothing when the runtime is borrowed (used by the logger, which may be
/// called from inside runtime code) or not created.
pub fn try_with<R>(f: impl FnOnce(&mut Rt) -> R) -> Option<R> {
    if crate::worker::on_worker_thread() {
        // closure threads never own a runtime
        return None;
    }
    RT.try_with(|cell| match cell.try_borrow_mut() {
        Ok(mut b) => {
            if b.is_none() {
                *b = Some(Rt::from_env());
            }
            Some(f(b.as_mut().unwrap()))
        }
        Err(_) => None,
    })
    .ok()
    .flatten()
}

impl Rt {
    fn from_env() -> Rt {
        let plan: Plan = match std::env::var_os("ZSIM_PLAN") {
            Some(p) => {
                let text = std::fs::read_to_string(&p).unwrap_or_else(|e| {
                    eprintln!("zsim: cannot read plan {:?}: {}", p, e);
                    std::process::exit(96)
                });
                serde_json::from_str(&text).unwrap_or_else(|e| {
                    eprintln!("zsim: bad plan {:?}: {}", p, e);
                    std::process::exit(96)
                })
            }
            None => Plan::default(),
        };
        let trace = Trace::open(std::env::var_os("ZSIM_TRACE"), &plan.root, plan.knobs.full_trace);
        let mut rng = SplitMix(plan.seed ^ 0x5151_5151_7a69_6e6f);
        let mut pct_changes = vec![];
        if let Strategy::Pct { d, len } = &plan.strategy {
            for _ in 0..*d {
                pct_changes.push(rng.below((*len).max(1)));
            }
        }
        for _ in 0..plan.knobs.select_burn {
            let mut two = [0u8, 1u8];
            futures_util::__private::async_await::shuffle(&mut two);
        }
        let n_plan = plan.events.len();
        let clock = plan.clock_start;
        std::panic::set_hook(Box::new(|info| {
            eprintln!("{}", info);
            let msg = format!("{}", info).replace('\n', " ");
            if try_with(|rt| {
                let t = rt.cur_label();
                rt.trace.ev(&t, "panic", &msg);
                rt.trace.flush();
            })
            .is_none()
            {
                crate::trace::emergency(&format!("panic {}", msg));
            }
        }));
        Rt {
            plan,
            trace,
            rng,
            choices_pos: 0,
            choices_out: vec![],
            decisions: 0,
            steps: 0,
            tasks: vec![],
            ready: VecDeque::new(),
            current: None,
            events: vec![],
            next_event_id: 0,
            quiescence: 0,
            plan_fired: vec![false; n_plan],
            clock,
            procs: Default::default(),
            vfs: Default::default(),
            signal: Default::default(),
            fault_counts: BTreeMap::new(),
            faults_fired: BTreeMap::new(),
            probes: BTreeMap::new(),
            chan_count: 0,
            pct_changes,
            root_done: false,
            active: false,
            idle_marker: false,
            forced: None,
            preempted_in_poll: false,
            in_callback: false,
            blocked_workers: 0,
            live_closure_threads: 0,
            timers: vec![],
        }
    }

    pub fn cur_label(&self) -> String {
        if self.in_callback {
            return "--cb".to_string();
        }
        match self.current {
            Some(id) => format!("t{}", id),
            None => "--".to_string(),
        }
    }

    pub fn ev(&mut self, kind: &str, rest: &str) {
        let t = self.cur_label();
        self.trace.ev(&t, kind, rest);
    }

    /// verbose event: only in full traces
    pub fn evv(&mut self, kind: &str, rest: &str) {
        if self.trace.full {
            let t = self.cur_label();
            self.trace.ev(&t, kind, rest);
        }
    }

    pub fn probe(&mut self, name: &str) {
        *self.probes.entry(name.to_string()).or_insert(0) += 1;
    }

    pub fn tick(&mut self) -> u64 {
        self.clock += 1;
        self.clock
    }

    pub fn set_site(&mut self, site: &str) {
        if let Some(id) = self.current {
            let t = &mut self.tasks[id];
            t.last_site.clear();
            t.last_site.push_str(site);
        }
    }

    /// Returns the fault kind to inject at this occurrence of `site`, if the plan asks for one.
    pub fn fault(&mut self, site: &str) -> Option<String> {
        if self.plan.faults.is_empty() {
            return None;
        }
        let c = self.fault_counts.entry(site.to_string()).or_insert(0);
        *c += 1;
        let occ = *c;
        let hit = self
            .plan
            .faults
            .iter()
            .find(|f| f.site == site && f.occurrence == occ)
            .map(|f| f.kind.clone());
        if let Some(k) = &hit {
            *self.faults_fired.entry(format!("{}:{}", site.split(':').next().unwrap_or(site), k)).or_insert(0) += 1;
            self.ev("fault", &format!("site={} occurrence={} kind={}", site, occ, k));
        }
        hit
    }

    // ---------------------------------------------------------------- choices

    fn bump_decision(&mut self) {
        self.decisions += 1;
        if self.plan.crash_at == Some(self.decisions) {
            self.ev("crash", &format!("decision={}", self.decisions));
            self.write_footer("crash");
            self.trace.flush();
            unsafe { libc::_exit(137) }
        }
        if !self.pct_changes.is_empty() {
            let d = self.decisions;
            let total = self.pct_changes.len() as u64;
            for (i, at) in self.pct_changes.clone().iter().enumerate() {
                if *at == d {
                    if let Some(cur) = self.current {
                        // lower than every initial priority (those are > total)
                        self.tasks[cur].prio = total - i as u64;
                    }
                }
            }
        }
    }

    fn choose(&mut self, n: usize, strat: impl FnOnce(&mut Rt) -> usize) -> usize {
        if n <= 1 {
            return 0;
        }
        let recorded = match &self.plan.choices {
            Some(list) if self.choices_pos < list.len() => {
                let v = list[self.choices_pos] as usize;
                self.choices_pos += 1;
                Some(v.min(n - 1))
            }
            Some(_) if self.plan.pad_zero => Some(0),
            _ => None,
        };
        let v = match recorded {
            Some(v) => v,
            None => strat(self).min(n - 1),
        };
        self.choices_out.push(v as u32);
        v
    }

    fn drain_wakes(&mut self) {
        let mut q = WAKE_QUEUE.lock().unwrap();
        while let Some(id) = q.pop_front() {
            self.ready.push_back(id);
        }
    }

    // ---------------------------------------------------------------- external events

    pub fn add_event(&mut self, kind: EvKind) -> usize {
        let id = self.next_event_id;
        self.next_event_id += 1;
        let prio = 1_000 + self.rng.below(1_000_000);
        self.events.push(ExtEvent { id, kind, prio });
        id
    }

    pub fn remove_proc_exit_event(&mut self, pid: usize) {
        self.events.retain(|e| !matches!(e.kind, EvKind::ProcExit(p) if p == pid));
    }

    fn gate_open(&self, gate: &Gate, idx: usize) -> bool {
        match gate {
            Gate::Now => true,
            Gate::Quiescence(n) => self.quiescence >= *n,
            Gate::Running { id, nth } => self.procs.is_running(id, *nth),
            Gate::After(other) => self
                .plan
                .events
                .iter()
                .position(|e| &e.id == other)
                .map(|i| self.plan_fired[i])
                .unwrap_or(true),
            Gate::Step(k) => self.decisions >= *k,
            Gate::Exited { id, n } => self.procs.exit_count(id) >= *n,
            Gate::Idle => {
                self.idle_marker
                    && self
                        .plan
                        .events
                        .iter()
                        .enumerate()
                        .all(|(i, e)| i == idx || self.plan_fired[i] || matches!(e.gate, Gate::Idle))
            }
        }
    }

    fn event_enabled(&self, ev: &ExtEvent) -> bool {
        match &ev.kind {
            EvKind::ProcExit(pid) => self.procs.exit_enabled(*pid, self),
            EvKind::FsDeliver { .. } => true,
            EvKind::Timer(_) => true,
            EvKind::Plan(i) => !self.plan_fired[*i] && (self.forced == Some(*i) || self.gate_open(&self.plan.events[*i].gate, *i)),
        }
    }

    fn enabled_events(&self) -> Vec<usize> {
        (0..self.events.len()).filter(|&i| self.event_enabled(&self.events[i])).collect()
    }

    // ---------------------------------------------------------------- scheduling points

    /// Decision "pre-empt the current task here?". Returns true if the caller must yield.
    pub fn decide_preempt(&mut self, site: &str) -> bool {
        if !self.active {
            return false;
        }
        self.set_site(site);
        self.bump_decision();
        self.drain_wakes();
        let cur = match self.current {
            Some(c) => c,
            None => return false,
        };
        let others_ready = self.ready.iter().any(|&t| t != cur && !self.tasks[t].done);
        let evs = self.enabled_events();
        if !others_ready && evs.is_empty() {
            return false;
        }
        let v = self.choose(2, |rt| match rt.plan.strategy.clone() {
            Strategy::Fifo => 0,
            Strategy::Random { preempt_permille } => (rt.rng.below(1000) < preempt_permille as u64) as usize,
            Strategy::Pct { .. } => {
                let mine = rt.tasks[cur].prio;
                let higher_task = rt.ready.iter().any(|&t| t != cur && !rt.tasks[t].done && rt.tasks[t].prio > mine);
                let higher_ev = evs.iter().any(|&i| rt.events[i].prio > mine);
                (higher_task || higher_ev) as usize
            }
            Strategy::Delay { victim, from, len, events } => {
                let in_window = rt.decisions >= from && rt.decisions < from + len;
                (!events && in_window && (victim as usize % rt.tasks.len().max(1)) == cur) as usize
            }
        });
        if v == 1 {
            self.preempted_in_poll = true;
            self.evv("preempt", site);
        }
        v == 1
    }

    /// A yes/no decision taken inside synchronous code (no task is pre-empted): used where the
    /// real system has another thread that may or may not act right now.
    pub fn decide_inline(&mut self, site: &str) -> bool {
        if !self.active {
            return false;
        }
        self.bump_decision();
        let v = self.choose(2, |rt| match rt.plan.strategy.clone() {
            Strategy::Random { .. } => (rt.rng.below(1000) < 300) as usize,
            Strategy::Pct { .. } => (rt.rng.below(1000) < 150) as usize,
            _ => 0,
        });
        if v == 1 {
            self.evv("inline-decision", site);
        }
        v == 1
    }

    /// Index of an enabled workload (fs) plan event, if any.
    pub fn enabled_plan_fs_event(&self) -> Option<usize> {
        self.events.iter().position(|e| match &e.kind {
            EvKind::Plan(i) => self.event_enabled(e) && matches!(self.plan.events[*i].kind, PlanEventKind::Fs { .. }),
            _ => false,
        })
    }

    pub fn note_parked(&mut self, what: &str) {
        self.set_site(what);
    }
}

// The two fields below are kept out of the main struct literal for readability.
impl Rt {
    fn pick(&mut self, cands: &[Cand]) -> usize {
        self.bump_decision();
        self.choose(cands.len(), |rt| match rt.plan.strategy.clone() {
            Strategy::Fifo => 0,
            Strategy::Random { .. } => rt.rng.below(cands.len() as u64) as usize,
            Strategy::Pct { .. } => {
                let mut best = 0;
                let mut best_p = 0;
                for (i, c) in cands.iter().enumerate() {
                    let p = match c {
                        Cand::Task(t) => rt.tasks[*t].prio,
                        Cand::Event(e) => rt.events[*e].prio,
                    };
                    if i == 0 || p > best_p {
                        best = i;
                        best_p = p;
                    }
                }
                best
            }
            Strategy::Delay { victim, from, len, events } => {
                let in_window = rt.decisions >= from && rt.decisions < from + len;
                if !in_window {
                    return 0;
                }
                let vt = victim as usize % rt.tasks.len().max(1);
                for (i, c) in cands.iter().enumerate() {
                    let is_victim = match c {
                        Cand::Task(t) => !events && *t == vt,
                        Cand::Event(_) => events,
                    };
                    if !is_victim {
                        return i;
                    }
                }
                0
            }
        })
    }

    pub fn write_footer(&mut self, exit: &str) {
        let procs = self.procs.summary();
        let mut pending = vec![];
        for (i, t) in self.tasks.iter().enumerate() {
            if !t.done {
                pending.push(format!("t{}@{}", i, t.last_site.replace(' ', "_")));
            }
        }
        let choices: Vec<String> = self.choices_out.iter().map(|c| c.to_string()).collect();
        let probes: Vec<String> = self.probes.iter().map(|(k, v)| format!("{}={}", k, v)).collect();
        let faults: Vec<String> = self.faults_fired.iter().map(|(k, v)| format!("{}={}", k, v)).collect();
        let line = format!(
            "FOOTER exit={} steps={} decisions={} clock={} quiescences={} procs=[{}] pending=[{}] probes=[{}] faults=[{}] choices=[{}]",
            exit,
            self.steps,
            self.decisions,
            self.clock,
            self.quiescence,
            procs,
            pending.join(","),
            probes.join(","),
            faults.join(","),
            choices.join(","),
        );
        self.trace.raw(&line);
    }
}

#[derive(Clone, Copy, Debug)]
enum Cand {
    Task(usize),
    Event(usize),
}

// ---------------------------------------------------------------- public task API

pub struct JoinState<T> {
    value: Option<T>,
    waker: Option<Waker>,
}

pub struct JoinHandle<T> {
    state: Arc<Mutex<JoinState<T>>>,
    pub task_id: usize,
}

impl<T> Future for JoinHandle<T> {
    type Output = T;
    fn poll(self: Pin<&mut Self>, cx: &mut Context<'_>) -> Poll<T> {
        let mut s = self.state.lock().unwrap();
        match s.value.take() {
            Some(v) => Poll::Ready(v),
            None => {
                s.waker = Some(cx.waker().clone());
                drop(s);
                with(|rt| rt.note_parked(&format!("join t{}", self.task_id)));
                Poll::Pending
            }
        }
    }
}

fn new_task(rt: &mut Rt, fut: Option<BoxFut>, label: &str) -> usize {
    let id = rt.tasks.len();
    let queued = Arc::new(AtomicBool::new(false));
    let waker = Waker::from(Arc::new(TaskWaker { id, queued: queued.clone() }));
    let prio = 1_000 + rt.rng.below(1_000_000);
    rt.tasks.push(Task { fut, queued, waker, prio, done: false, last_site: String::from("new"), label: label.to_string() });
    id
}

pub fn spawn<F, T>(fut: F, label: &str) -> JoinHandle<T>
where
    F: Future<Output = T> + 'static,
    T: 'static,
{
    let state = Arc::new(Mutex::new(JoinState { value: None, waker: None }));
    let st2 = state.clone();
    let wrapped: BoxFut = Box::pin(async move {
        let v = fut.await;
        let w = {
            let mut s = st2.lock().unwrap();
            s.value = Some(v);
            s.waker.take()
        };
        if let Some(w) = w {
            w.wake();
        }
    });
    let id = with(|rt| {
        let id = new_task(rt, Some(wrapped), label);
        rt.evv("spawn", &format!("t{} {}", id, label));
        let w = rt.tasks[id].waker.clone();
        w.wake_by_ref();
        id
    });
    JoinHandle { state, task_id: id }
}

/// One scheduling point (async form).
pub async fn sched_point(site: &'static str) {
    let mut first = true;
    std::future::poll_fn(move |cx| {
        if first {
            first = false;
            if with(|rt| rt.decide_preempt(site)) {
                cx.waker().wake_by_ref();
                return Poll::Pending;
            }
        }
        Poll::Ready(())
    })
    .await
}

/// One scheduling point (poll form): `Pending` means "pre-empted, already re-woken".
pub fn poll_sched_point(cx: &mut Context<'_>, site: &str) -> Poll<()> {
    if with(|rt| rt.decide_preempt(site)) {
        cx.waker().wake_by_ref();
        Poll::Pending
    } else {
        Poll::Ready(())
    }
}

pub fn block_on<F: Future>(fut: F) -> F::Output {
    // A nested call (from inside a task) blocks that task's worker thread: this frame drives the
    // inner future itself; other tasks run only while a worker is left (knob `workers`).
    let nested = with(|rt| rt.active);
    let mut fut = std::pin::pin!(fut);
    let (my_id, my_waker, outer_current) = with(|rt| {
        if !nested {
            rt.active = true;
            let id = new_task(rt, None, "root");
            assert_eq!(id, 0, "zsim: block_on must create task 0");
            rt.ev("start", &format!("seed={} strategy={:?}", rt.plan.seed, rt.plan.strategy).replace(' ', ""));
            for i in 0..rt.plan.events.len() {
                rt.add_event(EvKind::Plan(i));
            }
            let w = rt.tasks[0].waker.clone();
            w.wake_by_ref();
            (0usize, w, None)
        } else {
            let outer = rt.current;
            let id = new_task(rt, None, "nested-block_on");
            rt.blocked_workers += 1;
            rt.probe("nested-block_on");
            rt.evv("block_on-enter", &format!("t{} blocked-workers={}", id, rt.blocked_workers));
            let w = rt.tasks[id].waker.clone();
            w.wake_by_ref();
            (id, w, outer)
        }
    });
    let budget = with(|rt| if rt.plan.knobs.step_budget == 0 { 2_000_000 } else { rt.plan.knobs.step_budget });
    loop {
        // choose what runs next
        let cand = with(|rt| {
            rt.drain_wakes();
            loop {
                // candidates: ready tasks in FIFO order (deduplicated), then enabled events by id.
                // Tasks whose future is being polled further up the stack cannot run here; in a
                // nested frame other tasks need a free worker.
                let others_allowed = !nested || rt.plan.knobs.workers == 0 || rt.blocked_workers < rt.plan.knobs.workers;
                let mut cands: Vec<Cand> = vec![];
                for &t in rt.ready.iter() {
                    let runnable_here = t == my_id || (others_allowed && rt.tasks[t].fut.is_some());
                    if runnable_here && !rt.tasks[t].done && !cands.iter().any(|c| matches!(c, Cand::Task(x) if *x == t)) {
                        cands.push(Cand::Task(t));
                    }
                }
                for e in rt.enabled_events() {
                    cands.push(Cand::Event(e));
                }
                if !cands.is_empty() {
                    rt.idle_marker = false;
                    rt.forced = None;
                    let i = rt.pick(&cands);
                    return Some(cands[i]);
                }
                // quiescence
                rt.quiescence += 1;
                rt.idle_marker = true;
                let q = rt.quiescence;
                rt.ev("quiescence", &format!("#{}", q));
                if !rt.enabled_events().is_empty() {
                    continue;
                }
                // nothing enabled: force the first pending plan event whose gate may never open
                let pending: Vec<usize> = (0..rt.plan.events.len()).filter(|&i| !rt.plan_fired[i]).collect();
                let quiescence_gated = pending.iter().any(|&i| matches!(rt.plan.events[i].gate, Gate::Quiescence(n) if n > q));
                if quiescence_gated && q < 10_000 {
                    continue;
                }
                if let Some(&i) = pending.iter().find(|&&i| !matches!(rt.plan.events[i].gate, Gate::Idle | Gate::Quiescence(_))) {
                    rt.forced = Some(i);
                    let id = rt.plan.events[i].id.clone();
                    rt.ev("gate-forced", &id);
                    continue;
                }
                return None;
            }
        });
        let cand = match cand {
            Some(c) => c,
            None => {
                with(|rt| {
                    let starved = rt.ready.iter().any(|&t| !rt.tasks[t].done && rt.tasks[t].fut.is_some());
                    rt.ev("stall", if starved { "ready-tasks-starved-by-blocked-workers" } else { "" });
                    rt.write_footer("stall");
                    rt.trace.flush();
                });
                unsafe { libc::_exit(97) }
            }
        };
        match cand {
            Cand::Task(id) => {
                let fut_opt = with(|rt| {
                    // remove one occurrence from the ready list
                    if let Some(pos) = rt.ready.iter().position(|&t| t == id) {
                        rt.ready.remove(pos);
                    }
                    rt.tasks[id].queued.store(false, Ordering::SeqCst);
                    rt.current = Some(id);
                    rt.steps += 1;
                    rt.preempted_in_poll = false;
                    rt.evv("run", "");
                    rt.tasks[id].fut.take()
                });
                if id == my_id {
                    let mut cx = Context::from_waker(&my_waker);
                    if let Poll::Ready(v) = fut.as_mut().poll(&mut cx) {
                        with(|rt| {
                            rt.tasks[my_id].done = true;
                            if nested {
                                rt.blocked_workers -= 1;
                                rt.evv("block_on-leave", &format!("t{}", my_id));
                                rt.current = outer_current;
                                return;
                            }
                            rt.root_done = true;
                            rt.current = None;
                            rt.ev("main-returned", "");
                            rt.active = false;
                            // the process is about to exit: like real tasks, the remaining
                            // ones are never dropped
                            for t in rt.tasks.iter_mut() {
                                if let Some(f) = t.fut.take() {
                                    std::mem::forget(f);
                                }
                            }
                            rt.write_footer("main-returned");
                            rt.trace.flush();
                        });
                        return v;
                    }
                    with(|rt| {
                        let k = if rt.preempted_in_poll { "yield" } else { "park" };
                        rt.evv(k, "");
                        rt.current = outer_current
                    });
                } else if let Some(mut f) = fut_opt {
                    let w = with(|rt| rt.tasks[id].waker.clone());
                    let mut cx = Context::from_waker(&w);
                    let r = f.as_mut().poll(&mut cx);
                    with(|rt| {
                        match r {
                            Poll::Ready(()) => {
                                rt.tasks[id].done = true;
                                rt.evv("task-done", "");
                            }
                            Poll::Pending => {
                                rt.tasks[id].fut = Some(f);
                                // "park": every branch the task was waiting on has been polled
                                // and is pending; "yield": it was pre-empted somewhere
                                let k = if rt.preempted_in_poll { "yield" } else { "park" };
                                rt.evv(k, "");
                            }
                        }
                        rt.current = outer_current;
                    });
                } else {
                    with(|rt| rt.current = outer_current);
                }
            }
            Cand::Event(idx) => {
                let ev = with(|rt| {
                    rt.steps += 1;
                    // logical time: one tick per external event (script durations add theirs)
                    rt.clock += 1;
                    rt.events.remove(idx)
                });
                crate::fire_event(ev);
            }
        }
        let over = with(|rt| rt.steps > budget);
        if over {
            with(|rt| {
                rt.ev("budget", "");
                rt.write_footer("budget");
                rt.trace.flush();
            });
            unsafe { libc::_exit(98) }
        }
    }
}

impl Rt {
    pub fn fire_plan_event(&mut self, i: usize) -> PlanEventKind {
        self.plan_fired[i] = true;
        let id = self.plan.events[i].id.clone();
        self.ev("plan-event", &id);
        self.plan.events[i].kind.clone()
    }
}
