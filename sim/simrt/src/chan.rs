//! `async_std::channel` for the simulation: the real `async-channel` queue and wake-up logic
//! behind a wrapper that adds a scheduling point before every operation and records it.

use crate::rt::{self, with};
use std::any::TypeId;
use std::cell::RefCell;
use std::collections::HashMap;
use std::pin::Pin;
use std::task::{Context, Poll};

pub use async_channel::{RecvError, SendError, TryRecvError, TrySendError};

type Fmt = Box<dyn Fn(*const ()) -> String>;

thread_local! {
    static FORMATTERS: RefCell<HashMap<TypeId, Fmt>> = RefCell::new(HashMap::new());
}

/// Hook H1 (called by zinoma under `cfg(zinoma_verif)`): lets the trace show message contents.
pub fn register_debug<T: std::fmt::Debug + 'static>() {
    FORMATTERS.with(|f| {
        f.borrow_mut().insert(
            TypeId::of::<T>(),
            Box::new(|p: *const ()| {
                // SAFETY: only called with a pointer to a live T (looked up by TypeId::of::<T>())
                let r: &T = unsafe { &*(p as *const T) };
                format!("{:?}", r)
            }),
        );
    });
}

fn describe<T: 'static>(v: &T) -> String {
    FORMATTERS.with(|f| match f.borrow().get(&TypeId::of::<T>()) {
        Some(fmt) => fmt(v as *const T as *const ()).replace(' ', ""),
        None => short_type::<T>(),
    })
}

fn short_type<T>() -> String {
    let n = std::any::type_name::<T>();
    n.rsplit("::").next().unwrap_or(n).to_string()
}

pub struct Sender<T> {
    inner: async_channel::Sender<T>,
    id: usize,
}

pub struct Receiver<T> {
    inner: async_channel::Receiver<T>,
    id: usize,
}

impl<T> Clone for Sender<T> {
    fn clone(&self) -> Self {
        Sender { inner: self.inner.clone(), id: self.id }
    }
}
impl<T> Clone for Receiver<T> {
    fn clone(&self) -> Self {
        Receiver { inner: self.inner.clone(), id: self.id }
    }
}

impl<T> std::fmt::Debug for Sender<T> {
    fn fmt(&self, f: &mut std::fmt::Formatter<'_>) -> std::fmt::Result {
        write!(f, "Sender(c{})", self.id)
    }
}
impl<T> std::fmt::Debug for Receiver<T> {
    fn fmt(&self, f: &mut std::fmt::Formatter<'_>) -> std::fmt::Result {
        write!(f, "Receiver(c{})", self.id)
    }
}

pub fn bounded<T: 'static>(cap: usize) -> (Sender<T>, Receiver<T>) {
    let (eff, id) = with(|rt| {
        let eff = match rt.plan.knobs.cap_override {
            Some(o) if cap == 64 => o.max(1),
            _ => cap,
        };
        let id = rt.chan_count;
        rt.chan_count += 1;
        rt.evv("chan-new", &format!("c{} cap={} type={}", id, eff, short_type::<T>()));
        (eff, id)
    });
    let (s, r) = async_channel::bounded(eff);
    (Sender { inner: s, id }, Receiver { inner: r, id })
}

pub fn unbounded<T: 'static>() -> (Sender<T>, Receiver<T>) {
    let id = with(|rt| {
        let id = rt.chan_count;
        rt.chan_count += 1;
        rt.evv("chan-new", &format!("c{} cap=inf type={}", id, short_type::<T>()));
        id
    });
    let (s, r) = async_channel::unbounded();
    (Sender { inner: s, id }, Receiver { inner: r, id })
}

impl<T: 'static> Sender<T> {
    pub async fn send(&self, msg: T) -> Result<(), SendError<T>> {
        rt::sched_point("send").await;
        let full = with(|rt| rt.trace.full);
        let desc = if full { describe(&msg) } else { String::new() };
        match self.inner.try_send(msg) {
            Ok(()) => {
                if full {
                    with(|rt| rt.evv("send", &format!("c{} {} len={}", self.id, desc, self.inner.len())));
                }
                Ok(())
            }
            Err(TrySendError::Closed(m)) => {
                with(|rt| rt.evv("send-closed", &format!("c{} {}", self.id, desc)));
                Err(SendError(m))
            }
            Err(TrySendError::Full(m)) => {
                with(|rt| {
                    rt.probe("send-blocked-on-full-queue");
                    rt.evv("send-blocked", &format!("c{} {} len={}", self.id, desc, self.inner.len()));
                    rt.note_parked(&format!("send c{} (full)", self.id));
                });
                let r = self.inner.send(m).await;
                with(|rt| rt.evv("send", &format!("c{} {} after-block ok={}", self.id, desc, r.is_ok())));
                r
            }
        }
    }

    pub fn try_send(&self, msg: T) -> Result<(), TrySendError<T>> {
        let full = with(|rt| rt.trace.full);
        let desc = if full { describe(&msg) } else { String::new() };
        let r = self.inner.try_send(msg);
        with(|rt| {
            let res = match &r {
                Ok(()) => "ok",
                Err(TrySendError::Full(_)) => "full",
                Err(TrySendError::Closed(_)) => "closed",
            };
            if res == "full" {
                rt.probe("try_send-slot-already-full");
            }
            rt.evv("try_send", &format!("c{} {} {}", self.id, desc, res));
        });
        r
    }

    pub fn close(&self) -> bool {
        self.inner.close()
    }
    pub fn is_closed(&self) -> bool {
        self.inner.is_closed()
    }
    pub fn is_empty(&self) -> bool {
        self.inner.is_empty()
    }
    pub fn is_full(&self) -> bool {
        self.inner.is_full()
    }
    pub fn len(&self) -> usize {
        self.inner.len()
    }
    pub fn capacity(&self) -> Option<usize> {
        self.inner.capacity()
    }
    pub fn receiver_count(&self) -> usize {
        self.inner.receiver_count()
    }
    pub fn sender_count(&self) -> usize {
        self.inner.sender_count()
    }
}

impl<T: 'static> Receiver<T> {
    pub async fn recv(&self) -> Result<T, RecvError> {
        rt::sched_point("recv").await;
        match self.inner.try_recv() {
            Ok(v) => {
                self.note_recv(&v);
                Ok(v)
            }
            Err(TryRecvError::Closed) => Err(RecvError),
            Err(TryRecvError::Empty) => {
                with(|rt| rt.note_parked(&format!("recv c{} (empty)", self.id)));
                let r = self.inner.recv().await;
                if let Ok(v) = &r {
                    self.note_recv(v);
                }
                r
            }
        }
    }

    pub fn try_recv(&self) -> Result<T, TryRecvError> {
        let r = self.inner.try_recv();
        if let Ok(v) = &r {
            self.note_recv(v);
        }
        r
    }

    fn note_recv(&self, v: &T) {
        with(|rt| {
            if rt.trace.full {
                let d = describe(v);
                rt.evv("recv", &format!("c{} {} len={}", self.id, d, self.inner.len()));
            }
        });
    }

    pub fn close(&self) -> bool {
        self.inner.close()
    }
    pub fn is_closed(&self) -> bool {
        self.inner.is_closed()
    }
    pub fn is_empty(&self) -> bool {
        self.inner.is_empty()
    }
    pub fn is_full(&self) -> bool {
        self.inner.is_full()
    }
    pub fn len(&self) -> usize {
        self.inner.len()
    }
    pub fn capacity(&self) -> Option<usize> {
        self.inner.capacity()
    }
}

impl<T: 'static> futures_core::Stream for Receiver<T> {
    type Item = T;
    fn poll_next(mut self: Pin<&mut Self>, cx: &mut Context<'_>) -> Poll<Option<T>> {
        if rt::poll_sched_point(cx, "next").is_pending() {
            return Poll::Pending;
        }
        let id = self.id;
        let r = Pin::new(&mut self.inner).poll_next(cx);
        match &r {
            Poll::Ready(Some(v)) => self.note_recv(v),
            Poll::Ready(None) => {}
            Poll::Pending => with(|rt| {
                if rt.plan.knobs.trace_poll_empty {
                    rt.evv("poll-empty", &format!("c{}", id));
                }
                rt.note_parked(&format!("next c{} (empty)", id));
            }),
        }
        r
    }
}
