//! Trace file: one event per line, `seq task kind rest`. Buffered; flushed before anything
//! that can kill the process without unwinding.

use std::ffi::OsString;
use std::fs::File;
use std::io::Write;

pub struct Trace {
    file: Option<File>,
    buf: Vec<u8>,
    seq: u64,
    root: String,
    pub full: bool,
}

pub fn esc(s: &str) -> String {
    let mut o = String::with_capacity(s.len());
    for c in s.chars() {
        match c {
            '\n' => o.push_str("\\n"),
            '\r' => o.push_str("\\r"),
            '\\' => o.push_str("\\\\"),
            c if c.is_control() => o.push_str(&format!("\\x{:02x}", c as u32)),
            c => o.push(c),
        }
    }
    o
}

pub fn esc_path(p: &std::path::Path) -> String {
    use std::os::unix::ffi::OsStrExt;
    let mut o = String::new();
    for &b in p.as_os_str().as_bytes() {
        match b {
            b'\\' => o.push_str("\\\\"),
            b' ' => o.push_str("\\x20"),
            0x21..=0x7e => o.push(b as char),
            _ => o.push_str(&format!("\\x{:02x}", b)),
        }
    }
    o
}

impl Trace {
    pub fn open(path: Option<OsString>, root: &str, full: bool) -> Trace {
        let file = path.and_then(|p| File::create(p).ok());
        Trace { file, buf: Vec::with_capacity(16 * 1024), seq: 0, root: root.to_string(), full }
    }

    fn subst(&self, s: &str) -> String {
        if self.root.is_empty() {
            s.to_string()
        } else {
            s.replace(&self.root, "$ROOT")
        }
    }

    pub fn ev(&mut self, task: &str, kind: &str, rest: &str) {
        self.seq += 1;
        if self.file.is_none() {
            return;
        }
        let line = format!("{:06} {} {} {}\n", self.seq, task, kind, self.subst(rest));
        self.buf.extend_from_slice(line.as_bytes());
        if self.buf.len() > 12 * 1024 {
            self.flush();
        }
    }

    pub fn raw(&mut self, line: &str) {
        if self.file.is_none() {
            return;
        }
        let l = self.subst(line);
        self.buf.extend_from_slice(l.as_bytes());
        self.buf.push(b'\n');
    }

    pub fn seq(&self) -> u64 {
        self.seq
    }

    pub fn flush(&mut self) {
        if let Some(f) = &mut self.file {
            let _ = f.write_all(&self.buf);
        }
        self.buf.clear();
    }
}

/// Last-resort note when the runtime is borrowed (panic inside runtime code).
pub fn emergency(msg: &str) {
    if let Some(p) = std::env::var_os("ZSIM_TRACE") {
        let mut p = p;
        p.push(".emergency");
        let _ = std::fs::write(p, msg);
    }
}
