//! Virtual processes: the shell scripts zinoma would run, interpreted from a tiny DSL.
//!
//! ```text
//! @sim id=<id> [svc] [exit=<n>|sig=<n>] [inf] [gate=<name>] [read=<rel>,<rel>…]
//!      [write=<rel>,<rel>…] [size=<bytes>] [partial] [dur=<ticks>]
//! @cmd key=<k>
//! ```

use crate::rt::{with, EvKind, Rt};
use std::collections::BTreeMap;
use std::path::PathBuf;
use std::task::Waker;

#[derive(Clone, Debug, PartialEq, Eq)]
pub enum ProcKind {
    Build,
    Service,
    Cmd,
    Other,
}

#[derive(Clone, Debug, Default)]
pub struct ScriptSpec {
    pub id: String,
    pub svc: bool,
    pub cmd_key: Option<String>,
    pub exit: i32,
    pub sig: i32,
    pub inf: bool,
    pub gate: Option<String>,
    pub read: Vec<String>,
    pub write: Vec<String>,
    /// files the script removes when it succeeds, before it writes (a build that empties its
    /// output directory first: leftovers of earlier versions of itself go)
    pub wipe: Vec<String>,
    pub size: usize,
    pub partial: bool,
    pub dur: u64,
    pub known: bool,
}

pub fn parse_script(script: &str) -> ScriptSpec {
    let mut s = ScriptSpec::default();
    let mut toks = script.split_whitespace();
    match toks.next() {
        Some("@sim") => s.known = true,
        Some("@cmd") => {
            s.known = true;
            s.cmd_key = Some(String::new());
        }
        _ => {
            s.id = format!("?{}", script.chars().take(24).collect::<String>().replace(char::is_whitespace, "_"));
            return s;
        }
    }
    for t in toks {
        let (k, v) = match t.split_once('=') {
            Some((k, v)) => (k, v),
            None => (t, ""),
        };
        match k {
            "id" => s.id = v.to_string(),
            "key" => {
                s.cmd_key = Some(v.to_string());
                s.id = format!("cmd:{}", v);
            }
            "svc" => {
                s.svc = true;
                s.inf = true;
            }
            "exit" => s.exit = v.parse().unwrap_or(1),
            "sig" => s.sig = v.parse().unwrap_or(9),
            "inf" => s.inf = true,
            "gate" => s.gate = Some(v.to_string()),
            "read" => s.read = v.split(',').filter(|x| !x.is_empty()).map(String::from).collect(),
            "write" => s.write = v.split(',').filter(|x| !x.is_empty()).map(String::from).collect(),
            "wipe" => s.wipe = v.split(',').filter(|x| !x.is_empty()).map(String::from).collect(),
            "size" => s.size = v.parse().unwrap_or(0),
            "partial" => s.partial = true,
            "dur" => s.dur = v.parse().unwrap_or(0),
            _ => {}
        }
    }
    s
}

#[derive(Clone, Debug, PartialEq, Eq)]
pub enum PState {
    Running,
    Exited(i32),
    Killed,
}

pub struct Proc {
    pub pid: usize,
    pub spec: ScriptSpec,
    pub kind: ProcKind,
    pub cwd: PathBuf,
    pub state: PState,
    pub reaped: bool,
    pub handle_dropped: bool,
    pub nth: u32,
    pub snapshot: u64,
    pub stdout: Vec<u8>,
    pub waiters: Vec<Waker>,
    /// the shell was started with `-e` (stop at the first failing command)
    pub errexit: bool,
    /// stdout is a pipe held by zinoma (not drained by `output()`): what the script prints goes
    /// through a 64 KiB kernel buffer, and the script cannot end while more than that is unread
    pub pipe: Option<Pipe>,
}

pub const PIPE_CAPACITY: usize = 65536;

pub struct Pipe {
    pub data: Vec<u8>,
    pub read: usize,
    pub waiters: Vec<Waker>,
}

#[derive(Default)]
pub struct Procs {
    pub list: Vec<Proc>,
    pub spawn_counts: BTreeMap<String, u32>,
    pub exit_counts: BTreeMap<String, u32>,
    pub frozen: bool,
}

impl Procs {
    pub fn is_running(&self, id: &str, nth: u32) -> bool {
        self.list.iter().any(|p| p.spec.id == id && p.state == PState::Running && (nth == 0 || p.nth == nth))
    }
    pub fn exit_count(&self, id: &str) -> u32 {
        self.exit_counts.get(id).copied().unwrap_or(0)
    }
    pub fn exit_enabled(&self, pid: usize, rt: &Rt) -> bool {
        let p = &self.list[pid];
        if p.state != PState::Running || p.spec.inf {
            return false;
        }
        if self.frozen && matches!(p.kind, ProcKind::Build | ProcKind::Service) {
            return false;
        }
        if let Some(pipe) = &p.pipe {
            // blocked in write(2): the reader has to drain the pipe first
            if pipe.data.len() - pipe.read > PIPE_CAPACITY {
                return false;
            }
        }
        if let Some(g) = &p.spec.gate {
            if let Some(ids) = rt.plan.gates.get(g) {
                return ids.iter().all(|id| self.spawn_counts.get(id).copied().unwrap_or(0) >= 1);
            }
        }
        true
    }
    pub fn summary(&self) -> String {
        self.list
            .iter()
            .map(|p| {
                let st = match &p.state {
                    PState::Running => "running".to_string(),
                    PState::Exited(c) => format!("exited({})", c),
                    PState::Killed => "killed".to_string(),
                };
                let k = match p.kind {
                    ProcKind::Build => "build",
                    ProcKind::Service => "service",
                    ProcKind::Cmd => "cmd",
                    ProcKind::Other => "other",
                };
                format!("p{}:{}:{}:{}:{}", p.pid, p.spec.id, k, st, if p.reaped { "reaped" } else { "unreaped" })
            })
            .collect::<Vec<_>>()
            .join(",")
    }
}

/// Called by the `async-process` shim. Returns the pid, or the error to hand to zinoma.
pub fn spawn(script: &str, cwd: PathBuf, shell_flags: &str, piped_stdout: bool) -> std::io::Result<usize> {
    with(|rt| {
        let spec = parse_script(script);
        let kind = if spec.cmd_key.is_some() {
            ProcKind::Cmd
        } else if !spec.known {
            ProcKind::Other
        } else if spec.svc {
            ProcKind::Service
        } else {
            ProcKind::Build
        };
        if let Some(k) = rt.fault(&format!("proc.spawn:{}", spec.id)) {
            let _ = k;
            rt.ev("proc-spawn-failed", &format!("id={} err=EAGAIN", spec.id));
            return Err(std::io::Error::from_raw_os_error(libc::EAGAIN));
        }
        let pid = rt.procs.list.len();
        let c = rt.procs.spawn_counts.entry(spec.id.clone()).or_insert(0);
        *c += 1;
        let nth = *c;
        let mut entries = vec![];
        for r in &spec.read {
            let mut part = vec![];
            crate::stamp::read_tree(&cwd, r, &mut part);
            entries.extend(part);
        }
        entries.sort();
        let snapshot = crate::stamp::snapshot_hash(&entries);
        let kname = match kind {
            ProcKind::Build => "build",
            ProcKind::Service => "service",
            ProcKind::Cmd => "cmd",
            ProcKind::Other => "other",
        };
        rt.ev(
            "proc-spawn",
            &format!("p{} id={} kind={} nth={} snap={:016x} cwd={}", pid, spec.id, kname, nth, snapshot, crate::trace::esc_path(&cwd)),
        );
        rt.procs.list.push(Proc {
            pid,
            spec,
            kind,
            cwd,
            state: PState::Running,
            reaped: false,
            handle_dropped: false,
            nth,
            snapshot,
            stdout: vec![],
            waiters: vec![],
            errexit: shell_flags.starts_with('-') && shell_flags.contains('e'),
            pipe: None,
        });
        if piped_stdout {
            // what the script is going to print is fixed when it starts
            let mut data = vec![];
            if let Some(key) = &rt.procs.list[pid].spec.cmd_key {
                let cwd = rt.procs.list[pid].cwd.clone();
                let v = crate::vfs::lookup_var(std::path::Path::new(&rt.plan.vars_dir), std::path::Path::new(&rt.plan.root), &cwd, key);
                if !v.starts_with(b"!fail") {
                    data = v;
                }
            }
            rt.evv("proc-pipe", &format!("p{} bytes={}", pid, data.len()));
            rt.procs.list[pid].pipe = Some(Pipe { data, read: 0, waiters: vec![] });
        }
        rt.add_event(EvKind::ProcExit(pid));
        Ok(pid)
    })
}

/// The exit event of process `pid` fires.
pub fn fire_exit(pid: usize) {
    with(|rt| {
        let (spec, kind, cwd, nth, snapshot) = {
            let p = &rt.procs.list[pid];
            (p.spec.clone(), p.kind.clone(), p.cwd.clone(), p.nth, p.snapshot)
        };
        let mut exit = spec.exit;
        let mut sig = spec.sig;
        let mut truth: Option<i32> = None;
        if let Some(k) = rt.fault(&format!("proc.exit:{}", spec.id)) {
            if let Some(v) = k.strip_prefix("exit=") {
                exit = v.parse().unwrap_or(1);
                sig = 0;
            } else if let Some(v) = k.strip_prefix("sig=") {
                sig = v.parse().unwrap_or(9);
            } else if let Some(v) = k.strip_prefix("midfail=") {
                // a command in the middle of the script fails. Under `sh -e` the shell stops
                // there with that status; without `-e` it carries on and the script ends with the
                // status of its last command (0) - the script failed all the same
                let n: i32 = v.parse().unwrap_or(1);
                truth = Some(n << 8);
                if rt.procs.list[pid].errexit {
                    exit = n;
                    sig = 0;
                }
            }
        }
        let _ = nth;
        let mut stdout = vec![];
        if let Some(key) = &spec.cmd_key {
            let v = crate::vfs::lookup_var(std::path::Path::new(&rt.plan.vars_dir), std::path::Path::new(&rt.plan.root), &cwd, key);
            if v.starts_with(b"!fail") {
                exit = 1;
            } else {
                stdout = v;
            }
        }
        let raw = if sig != 0 { sig } else { exit << 8 };
        let mut wrote = vec![];
        let ok = raw == 0;
        if kind == ProcKind::Build {
            let n = if ok {
                spec.write.len()
            } else if spec.partial {
                spec.write.len().min(1)
            } else {
                0
            };
            if ok {
                for rel in spec.wipe.iter() {
                    let path = cwd.join(rel);
                    if std::fs::remove_file(&path).is_ok() {
                        rt.tick();
                        crate::vfs::notify_paths(rt, vec![(crate::vfs::K_REMOVE, vec![path])]);
                    }
                }
            }
            for rel in spec.write.iter().take(n) {
                let content = if ok {
                    crate::stamp::stamp(&spec.id, rel, snapshot, spec.size)
                } else {
                    b"partial garbage\n".to_vec()
                };
                let path = cwd.join(rel);
                if let Some(parent) = path.parent() {
                    let _ = std::fs::create_dir_all(parent);
                }
                let existed = path.exists();
                crate::vfs::script_write(rt, &path, &content, existed);
                wrote.push(rel.clone());
            }
        }
        rt.clock += spec.dur;
        if !ok && kind != ProcKind::Cmd && rt.plan.knobs.freeze_on_failure {
            rt.procs.frozen = true;
        }
        *rt.procs.exit_counts.entry(spec.id.clone()).or_insert(0) += 1;
        let p = &mut rt.procs.list[pid];
        p.state = PState::Exited(raw);
        p.stdout = if p.pipe.is_some() { vec![] } else { stdout };
        let mut waiters: Vec<Waker> = p.waiters.drain(..).collect();
        if let Some(pipe) = p.pipe.as_mut() {
            waiters.extend(pipe.waiters.drain(..));
        }
        let truth_note = match truth {
            Some(t) if t != raw => format!(" truth={}", t),
            _ => String::new(),
        };
        rt.ev("proc-exit", &format!("p{} id={} raw={} wrote={}{}", pid, spec.id, raw, wrote.join(","), truth_note));
        for w in waiters {
            w.wake();
        }
    })
}

pub fn kill(pid: usize) -> std::io::Result<()> {
    with(|rt| {
        let p = &mut rt.procs.list[pid];
        let id = p.spec.id.clone();
        match p.state {
            PState::Running => {
                p.state = PState::Killed;
                let mut waiters: Vec<Waker> = p.waiters.drain(..).collect();
                if let Some(pipe) = p.pipe.as_mut() {
                    waiters.extend(pipe.waiters.drain(..));
                }
                rt.remove_proc_exit_event(pid);
                rt.ev("proc-kill", &format!("p{} id={}", pid, id));
                for w in waiters {
                    w.wake();
                }
                Ok(())
            }
            _ => {
                // like kill(2) on a zombie: succeeds, no effect; on a reaped child std returns InvalidInput
                rt.ev("proc-kill", &format!("p{} id={} noop", pid, id));
                if rt.procs.list[pid].reaped {
                    Err(std::io::Error::new(std::io::ErrorKind::InvalidInput, "invalid argument: can't kill an exited process"))
                } else {
                    Ok(())
                }
            }
        }
    })
}

/// Poll for the exit status; registers the waker when still running. Marks the child reaped.
pub fn poll_status(pid: usize, waker: &Waker) -> Option<i32> {
    with(|rt| {
        let p = &mut rt.procs.list[pid];
        let raw = match p.state {
            PState::Running => {
                p.waiters.push(waker.clone());
                rt.note_parked(&format!("status p{}", pid));
                return None;
            }
            PState::Exited(raw) => raw,
            PState::Killed => 9,
        };
        if !p.reaped {
            p.reaped = true;
            let id = p.spec.id.clone();
            rt.ev("proc-reap", &format!("p{} id={}", pid, id));
        }
        Some(raw)
    })
}

/// Read end of a piped stdout. Ok(0) = end of file (the script is gone and everything was read).
pub fn pipe_read(pid: usize, buf: &mut [u8], waker: &Waker) -> std::task::Poll<std::io::Result<usize>> {
    use std::task::Poll;
    with(|rt| {
        let running = rt.procs.list[pid].state == PState::Running;
        let pipe = match rt.procs.list[pid].pipe.as_mut() {
            Some(p) => p,
            None => return Poll::Ready(Ok(0)),
        };
        let left = pipe.data.len() - pipe.read;
        if left > 0 {
            let n = left.min(buf.len()).min(PIPE_CAPACITY);
            buf[..n].copy_from_slice(&pipe.data[pipe.read..pipe.read + n]);
            pipe.read += n;
            return Poll::Ready(Ok(n));
        }
        if running {
            pipe.waiters.push(waker.clone());
            rt.note_parked(&format!("pipe-read p{}", pid));
            return Poll::Pending;
        }
        Poll::Ready(Ok(0))
    })
}

pub fn take_stdout(pid: usize) -> Vec<u8> {
    with(|rt| std::mem::take(&mut rt.procs.list[pid].stdout))
}

pub fn handle_dropped(pid: usize) {
    let _ = crate::rt::try_with(|rt| {
        if let Some(p) = rt.procs.list.get_mut(pid) {
            p.handle_dropped = true;
            if p.state == PState::Running {
                let id = p.spec.id.clone();
                rt.ev("proc-handle-dropped", &format!("p{} id={} while=running", pid, id));
            }
        }
    });
}
