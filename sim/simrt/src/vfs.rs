//! File-system operations of the workload and of virtual scripts (on the real file system, with
//! logical mtimes) and the virtual inotify that reports them to zinoma's real callback.

use crate::plan::FsOp;
use crate::rt::{EvKind, Rt};
use std::collections::{BTreeMap, VecDeque};
use std::ffi::OsString;
use std::path::{Path, PathBuf};

pub const MTIME_BASE: i64 = 1_600_000_000;

pub const K_CREATE: u8 = 1;
pub const K_MODIFY_DATA: u8 = 2;
pub const K_CLOSE_WRITE: u8 = 3;
pub const K_METADATA: u8 = 4;
pub const K_REMOVE: u8 = 5;
pub const K_RENAME_FROM: u8 = 6;
pub const K_RENAME_TO: u8 = 7;
pub const K_RENAME_BOTH: u8 = 8;
/// queue overflow: an event without any path (injected by the fault `notify.rescan`)
pub const K_RESCAN: u8 = 9;

/// One inotify-level event: kind code and path list.
pub type Ev = (u8, Vec<PathBuf>);

pub fn set_mtime(path: &Path, tick: u64) {
    use std::os::unix::ffi::OsStrExt;
    let c = match std::ffi::CString::new(path.as_os_str().as_bytes()) {
        Ok(c) => c,
        Err(_) => return,
    };
    let ts = libc::timespec { tv_sec: MTIME_BASE + tick as i64, tv_nsec: 0 };
    let times = [ts, ts];
    unsafe {
        libc::utimensat(libc::AT_FDCWD, c.as_ptr(), times.as_ptr(), 0);
    }
}

/// Overwrite the file's bytes through mmap(MAP_SHARED) without changing its length.
fn mmap_rewrite(path: &Path, data: &[u8]) -> bool {
    use std::os::unix::ffi::OsStrExt;
    let c = match std::ffi::CString::new(path.as_os_str().as_bytes()) {
        Ok(c) => c,
        Err(_) => return false,
    };
    unsafe {
        let fd = libc::open(c.as_ptr(), libc::O_RDWR);
        if fd < 0 {
            return false;
        }
        let m = libc::mmap(std::ptr::null_mut(), data.len(), libc::PROT_READ | libc::PROT_WRITE, libc::MAP_SHARED, fd, 0);
        if m == libc::MAP_FAILED {
            libc::close(fd);
            return false;
        }
        std::ptr::copy_nonoverlapping(data.as_ptr(), m as *mut u8, data.len());
        libc::msync(m, data.len(), libc::MS_SYNC);
        libc::munmap(m, data.len());
        libc::close(fd);
    }
    true
}

fn set_mtime_raw(path: &Path, ts: libc::timespec) {
    use std::os::unix::ffi::OsStrExt;
    if let Ok(c) = std::ffi::CString::new(path.as_os_str().as_bytes()) {
        let times = [ts, ts];
        unsafe {
            libc::utimensat(libc::AT_FDCWD, c.as_ptr(), times.as_ptr(), 0);
        }
    }
}

pub fn get_mtime_tick(path: &Path) -> Option<i64> {
    use std::os::unix::fs::MetadataExt;
    std::fs::metadata(path).ok().map(|m| m.mtime() - MTIME_BASE)
}

/// Value of the `@cmd key=<k>` variable as seen from working directory `cwd`: a per-directory
/// value (`<dir with / replaced by +>__<key>`) shadows the global one. Missing = empty.
pub fn lookup_var(vars_dir: &Path, root: &Path, cwd: &Path, key: &str) -> Vec<u8> {
    if let Ok(rel) = cwd.strip_prefix(root) {
        let m = rel.to_string_lossy().replace('/', "+");
        if let Ok(v) = std::fs::read(vars_dir.join(format!("{}__{}", m, key))) {
            return expand_big(v);
        }
    }
    expand_big(std::fs::read(vars_dir.join(key)).unwrap_or_default())
}

/// `!big:<n>:<rest>` stands for n filler bytes followed by <rest> (a command printing more than
/// a pipe buffer, without carrying that text in every scenario file).
fn expand_big(v: Vec<u8>) -> Vec<u8> {
    if let Some(body) = v.strip_prefix(b"!big:") {
        if let Some(pos) = body.iter().position(|&b| b == b':') {
            if let Ok(n) = String::from_utf8_lossy(&body[..pos]).parse::<usize>() {
                let mut out = Vec::with_capacity(n + body.len());
                for i in 0..n.min(4 << 20) {
                    out.push(b'a' + (i % 23) as u8);
                }
                out.extend_from_slice(&body[pos + 1..]);
                return out;
            }
        }
    }
    v
}

/// Decode the path syntax of plans and scenarios: `\xNN` escapes for arbitrary bytes.
pub fn decode_path(s: &str) -> PathBuf {
    use std::os::unix::ffi::OsStringExt;
    PathBuf::from(OsString::from_vec(decode_bytes(s)))
}

/// `\xNN` escapes for arbitrary bytes (paths, and the values printed by `@cmd` scripts).
pub fn decode_bytes(s: &str) -> Vec<u8> {
    let b = s.as_bytes();
    let mut out = Vec::with_capacity(b.len());
    let mut i = 0;
    while i < b.len() {
        if b[i] == b'\\' && i + 3 < b.len() && b[i + 1] == b'x' {
            if let Ok(v) = u8::from_str_radix(&s[i + 2..i + 4], 16) {
                out.push(v);
                i += 4;
                continue;
            }
        }
        out.push(b[i]);
        i += 1;
    }
    out
}

/// Applies one operation to the real file system. `root` is the case root that relative paths
/// of the op are resolved against. Returns the list of inotify-style path lists it causes.
pub fn apply_plain(root: &Path, vars_dir: &Path, op: &FsOp, clock: &mut u64) -> Vec<Ev> {
    let abs = |p: &str| root.join(decode_path(p));
    let mut tick = || {
        *clock += 1;
        *clock
    };
    match op {
        FsOp::Write { path, content } | FsOp::Append { path, content } => {
            let p = abs(path);
            if !p.exists() {
                return vec![];
            }
            let r = if matches!(op, FsOp::Append { .. }) {
                use std::io::Write;
                std::fs::OpenOptions::new().append(true).open(&p).and_then(|mut f| f.write_all(content.as_bytes()))
            } else {
                std::fs::write(&p, content.as_bytes())
            };
            if r.is_err() {
                return vec![];
            }
            set_mtime(&p, tick());
            vec![(K_MODIFY_DATA, vec![p.clone()]), (K_CLOSE_WRITE, vec![p])]
        }
        FsOp::Touch { path } => {
            let p = abs(path);
            if !p.exists() {
                return vec![];
            }
            set_mtime(&p, tick());
            vec![(K_METADATA, vec![p])]
        }
        FsOp::WriteKeepMtime { path, content } => {
            use std::os::unix::fs::MetadataExt;
            let p = abs(path);
            // the exact old timestamp (seconds and nanoseconds), whatever wrote it
            let old = match std::fs::metadata(&p) {
                Ok(m) => libc::timespec { tv_sec: m.mtime(), tv_nsec: m.mtime_nsec() },
                Err(_) => return vec![],
            };
            if std::fs::write(&p, content.as_bytes()).is_err() {
                return vec![];
            }
            tick();
            set_mtime_raw(&p, old);
            vec![(K_MODIFY_DATA, vec![p.clone()]), (K_CLOSE_WRITE, vec![p.clone()]), (K_METADATA, vec![p])]
        }
        FsOp::WriteMmap { path, content } => {
            let p = abs(path);
            let len = match std::fs::metadata(&p) {
                Ok(m) if m.is_file() && m.len() > 0 => m.len() as usize,
                _ => return vec![],
            };
            // new bytes: the given content repeated / cut to the existing length
            let src = content.as_bytes();
            if src.is_empty() {
                return vec![];
            }
            let data: Vec<u8> = (0..len).map(|i| src[i % src.len()]).collect();
            let ok = mmap_rewrite(&p, &data);
            if !ok {
                return vec![];
            }
            set_mtime(&p, tick());
            vec![(K_CLOSE_WRITE, vec![p])]
        }
        FsOp::WriteOlder { path, content } => {
            let p = abs(path);
            let old = match get_mtime_tick(&p) {
                Some(t) => t,
                None => return vec![],
            };
            if std::fs::write(&p, content.as_bytes()).is_err() {
                return vec![];
            }
            let now = tick();
            // older than every mtime in use (logical mtimes are MTIME_BASE + tick, tick >= 1) and
            // never used twice: two older revisions with one and the same mtime would be
            // indistinguishable by the mtime-or-content rule
            let _ = old;
            let ts = libc::timespec { tv_sec: MTIME_BASE - 1000 - now as i64, tv_nsec: 0 };
            set_mtime_raw(&p, ts);
            vec![(K_MODIFY_DATA, vec![p.clone()]), (K_CLOSE_WRITE, vec![p.clone()]), (K_METADATA, vec![p])]
        }
        FsOp::WriteAncient { path, content } => {
            let p = abs(path);
            if !p.is_file() || std::fs::write(&p, content.as_bytes()).is_err() {
                return vec![];
            }
            // before the epoch, and never twice the same
            let ts = libc::timespec { tv_sec: -86_400 - tick() as i64, tv_nsec: 0 };
            set_mtime_raw(&p, ts);
            vec![(K_MODIFY_DATA, vec![p.clone()]), (K_CLOSE_WRITE, vec![p.clone()]), (K_METADATA, vec![p])]
        }
        FsOp::Create { path, content } => {
            let p = abs(path);
            if p.exists() {
                return vec![];
            }
            if std::fs::write(&p, content.as_bytes()).is_err() {
                return vec![];
            }
            set_mtime(&p, tick());
            vec![(K_CREATE, vec![p.clone()]), (K_MODIFY_DATA, vec![p.clone()]), (K_CLOSE_WRITE, vec![p])]
        }
        FsOp::Delete { path } => {
            let p = abs(path);
            if std::fs::remove_file(&p).is_err() {
                return vec![];
            }
            tick();
            vec![(K_REMOVE, vec![p])]
        }
        FsOp::Rename { from, to } => {
            let f = abs(from);
            let t = abs(to);
            if !f.exists() || std::fs::rename(&f, &t).is_err() {
                return vec![];
            }
            tick();
            vec![(K_RENAME_FROM, vec![f.clone()]), (K_RENAME_TO, vec![t.clone()]), (K_RENAME_BOTH, vec![f, t])]
        }
        FsOp::SetVar { key, value } => {
            let _ = std::fs::create_dir_all(vars_dir);
            let _ = std::fs::write(vars_dir.join(key), decode_bytes(value));
            tick();
            vec![]
        }
    }
}

/// One `watch()` registration: inotify resolves the path once and then follows the inode, while
/// every event is reported under the path *as it was given* (`<given>/<name>`, or `<given>`
/// itself for an event on the watched directory or file).
pub struct WatchRoot {
    pub declared: PathBuf,
    pub canon: PathBuf,
    pub is_dir: bool,
}

pub struct WatcherState {
    pub roots: Vec<WatchRoot>,
    pub handler: Option<Box<dyn FnMut(u8, Vec<PathBuf>)>>,
    pub dead: bool,
    pub closed: bool,
    pub queue: VecDeque<Ev>,
}

#[derive(Default)]
pub struct Vfs {
    pub watchers: Vec<WatcherState>,
    /// known `.zinoma` directories → listing (name → (mtime ns, len))
    pub workdirs: BTreeMap<PathBuf, BTreeMap<OsString, (i128, u64)>>,
}

impl Vfs {
    pub fn any_watcher(&self) -> bool {
        self.watchers.iter().any(|w| !w.closed)
    }
}

/// The path under which watcher `w` reports an event on `p` (None: not covered by `w`).
pub fn reported_as(w: &WatcherState, p: &Path) -> Option<PathBuf> {
    if w.closed {
        return None;
    }
    for r in &w.roots {
        if r.is_dir {
            if let Ok(rel) = p.strip_prefix(&r.canon).or_else(|_| p.strip_prefix(&r.declared)) {
                return Some(if rel.as_os_str().is_empty() { r.declared.clone() } else { r.declared.join(rel) });
            }
        } else if p == r.canon || p == r.declared {
            return Some(r.declared.clone());
        }
    }
    None
}

/// Queue the notifications for `lists` (each a path list of one inotify event) at every watcher
/// that covers the first path of the list.
pub fn notify_paths(rt: &mut Rt, lists: Vec<Ev>) {
    if lists.is_empty() || !rt.vfs.any_watcher() {
        return;
    }
    for wi in 0..rt.vfs.watchers.len() {
        for l in &lists {
            // a two-path rename event is reported when either end is covered
            let mapped: Vec<Option<PathBuf>> = l.1.iter().map(|p| reported_as(&rt.vfs.watchers[wi], p)).collect();
            if mapped.iter().any(|m| m.is_some()) {
                let paths: Vec<PathBuf> = mapped.into_iter().zip(l.1.iter()).map(|(m, p)| m.unwrap_or_else(|| p.clone())).collect();
                rt.vfs.watchers[wi].queue.push_back((l.0, paths));
                rt.add_event(EvKind::FsDeliver { watcher: wi, paths: vec![] });
            }
        }
    }
}

pub fn apply_workload_op(rt: &mut Rt, op: &FsOp) {
    let root = PathBuf::from(&rt.plan.root);
    let vars = PathBuf::from(&rt.plan.vars_dir);
    let mut clock = rt.clock;
    let lists = apply_plain(&root, &vars, op, &mut clock);
    rt.clock = clock;
    rt.ev("fs-apply", &format!("{} events={}", serde_json::to_string(op).unwrap_or_default(), lists.len()));
    notify_paths(rt, lists);
}

pub fn script_write(rt: &mut Rt, path: &Path, content: &[u8], existed: bool) {
    if std::fs::write(path, content).is_err() {
        return;
    }
    let t = rt.tick();
    set_mtime(path, t);
    let p = path.to_path_buf();
    let lists = if existed {
        vec![(K_MODIFY_DATA, vec![p.clone()]), (K_CLOSE_WRITE, vec![p])]
    } else {
        vec![(K_CREATE, vec![p.clone()]), (K_MODIFY_DATA, vec![p.clone()]), (K_CLOSE_WRITE, vec![p])]
    };
    notify_paths(rt, lists);
}

/// Remember the `.zinoma` directory a path lies in (if any), so that zinoma's own writes there
/// can be reported to watchers.
pub fn note_path(rt: &mut Rt, p: &Path) {
    let mut acc = PathBuf::new();
    for c in p.components() {
        acc.push(c);
        if c.as_os_str() == ".zinoma" {
            if !rt.vfs.workdirs.contains_key(&acc) {
                let l = list_dir(&acc);
                rt.vfs.workdirs.insert(acc.clone(), l);
            }
            return;
        }
    }
}

fn list_dir(d: &Path) -> BTreeMap<OsString, (i128, u64)> {
    use std::os::unix::fs::MetadataExt;
    let mut m = BTreeMap::new();
    if let Ok(rd) = std::fs::read_dir(d) {
        for e in rd.flatten() {
            if let Ok(md) = e.metadata() {
                m.insert(e.file_name(), (md.mtime() as i128 * 1_000_000_000 + md.mtime_nsec() as i128, md.len()));
            }
        }
    }
    m
}

/// Diff the known `.zinoma` directories and report zinoma's own writes to the watchers.
pub fn scan_workdirs(rt: &mut Rt) {
    if !rt.vfs.any_watcher() || rt.vfs.workdirs.is_empty() {
        return;
    }
    let dirs: Vec<PathBuf> = rt.vfs.workdirs.keys().cloned().collect();
    let mut lists = vec![];
    for d in dirs {
        let now = list_dir(&d);
        let old = rt.vfs.workdirs.get(&d).cloned().unwrap_or_default();
        if now == old {
            continue;
        }
        if old.is_empty() && !now.is_empty() && !d.exists() {
            continue;
        }
        for (n, v) in &now {
            match old.get(n) {
                None => {
                    lists.push((K_CREATE, vec![d.join(n)]));
                    lists.push((K_CLOSE_WRITE, vec![d.join(n)]));
                }
                Some(o) if o != v => lists.push((K_MODIFY_DATA, vec![d.join(n)])),
                _ => {}
            }
        }
        for n in old.keys() {
            if !now.contains_key(n) {
                lists.push((K_REMOVE, vec![d.join(n)]));
            }
        }
        rt.vfs.workdirs.insert(d, now);
    }
    if !lists.is_empty() {
        rt.probe("own-state-write-seen-by-watcher");
        notify_paths(rt, lists);
    }
}

// ---------------------------------------------------------------- notify shim back end

pub enum WatchError {
    NotFound,
    /// injected: the kernel refuses the watch (ENOSPC: inotify watch limit reached)
    Limit,
}

pub fn new_watcher(handler: Box<dyn FnMut(u8, Vec<PathBuf>)>) -> usize {
    crate::rt::with(|rt| {
        let id = rt.vfs.watchers.len();
        rt.vfs.watchers.push(WatcherState { roots: vec![], handler: Some(handler), dead: false, closed: false, queue: VecDeque::new() });
        rt.evv("watcher-new", &format!("w{}", id));
        id
    })
}

pub fn watch(id: usize, path: &Path) -> Result<(), WatchError> {
    let r = crate::rt::with(|rt| {
        if rt.fault("notify.watch").is_some() {
            rt.ev("watch-error", &format!("w{} {} ENOSPC(injected)", id, crate::trace::esc_path(path)));
            return Err(WatchError::Limit);
        }
        watch_inner(rt, id, path)
    });
    // notify's event-loop thread runs beside the thread calling `watch()`: between two `watch()`
    // calls of one watcher it may already hand events for the paths registered so far to the
    // callback (and the workload may be writing). The scheduler decides.
    if r.is_ok() {
        for _ in 0..4 {
            enum Act {
                Deliver,
                Apply(usize),
                Stop,
            }
            let act = crate::rt::with(|rt| {
                let queued = !rt.vfs.watchers[id].queue.is_empty() && !rt.vfs.watchers[id].dead;
                let ev = rt.enabled_plan_fs_event();
                if !queued && ev.is_none() {
                    return Act::Stop;
                }
                if !rt.decide_inline("events-during-watch-registration") {
                    return Act::Stop;
                }
                if queued {
                    // consume the matching FsDeliver event
                    if let Some(pos) = rt.events.iter().position(|e| matches!(e.kind, EvKind::FsDeliver { watcher, .. } if watcher == id)) {
                        rt.events.remove(pos);
                    }
                    Act::Deliver
                } else {
                    Act::Apply(ev.unwrap())
                }
            });
            match act {
                Act::Stop => break,
                Act::Deliver => deliver(id),
                Act::Apply(idx) => {
                    let ev = crate::rt::with(|rt| rt.events.remove(idx));
                    crate::fire_event(ev);
                }
            }
        }
    }
    r
}

fn watch_inner(rt: &mut Rt, id: usize, path: &Path) -> Result<(), WatchError> {
    match std::fs::metadata(path) {
        Ok(md) => {
            let canon = std::fs::canonicalize(path).unwrap_or_else(|_| path.to_path_buf());
            rt.vfs.watchers[id].roots.push(WatchRoot { declared: path.to_path_buf(), canon, is_dir: md.is_dir() });
            rt.ev("watch", &format!("w{} {} dir={}", id, crate::trace::esc_path(path), md.is_dir()));
            Ok(())
        }
        Err(_) => {
            rt.ev("watch-error", &format!("w{} {} NotFound", id, crate::trace::esc_path(path)));
            Err(WatchError::NotFound)
        }
    }
}

pub fn close_watcher(id: usize) {
    let _ = crate::rt::try_with(|rt| {
        if let Some(w) = rt.vfs.watchers.get_mut(id) {
            w.closed = true;
            w.queue.clear();
        }
    });
}

/// An `FsDeliver` event fires: hand the oldest queued path list of that watcher to zinoma's
/// callback, outside any borrow of the runtime.
pub fn deliver(watcher: usize) {
    let (paths, handler) = crate::rt::with(|rt| {
        if !rt.vfs.watchers[watcher].closed && !rt.vfs.watchers[watcher].dead && rt.fault("notify.rescan").is_some() {
            // the kernel's event queue overflowed some time before this event: notify first
            // hands over a path-less "rescan" event (the events that were dropped concerned
            // files nobody declared; what is still queued is delivered afterwards)
            rt.vfs.watchers[watcher].queue.push_front((K_RESCAN, vec![]));
            rt.add_event(EvKind::FsDeliver { watcher, paths: vec![] });
        }
        let w = &mut rt.vfs.watchers[watcher];
        if w.closed {
            return (None, None);
        }
        let paths = w.queue.pop_front();
        if w.dead {
            if let Some(p) = &paths {
                let s: Vec<String> = p.1.iter().map(|x| crate::trace::esc_path(x)).collect();
                rt.ev("fs-lost", &format!("w{} [{}] watcher-dead", watcher, s.join(",")));
            }
            return (None, None);
        }
        let h = w.handler.take();
        if let Some(p) = &paths {
            let s: Vec<String> = p.1.iter().map(|x| crate::trace::esc_path(x)).collect();
            rt.ev("fs-deliver", &format!("w{} k{} [{}]", watcher, p.0, s.join(",")));
            rt.in_callback = true;
        }
        (paths, h)
    });
    if let (Some(paths), Some(mut h)) = (paths, handler) {
        let r = std::panic::catch_unwind(std::panic::AssertUnwindSafe(|| h(paths.0, paths.1)));
        crate::rt::with(|rt| {
            rt.in_callback = false;
            let w = &mut rt.vfs.watchers[watcher];
            match r {
                Ok(()) => w.handler = Some(h),
                Err(_) => {
                    w.dead = true;
                    std::mem::forget(h);
                    rt.ev("watcher-died", &format!("w{}", watcher));
                }
            }
        });
    }
}
