//! Shim with the name of `async-process`: `Command`/`Child` over the simulator's virtual
//! processes. zinoma's real `run_script::build_command` builds `/bin/sh -ce <script>`; the
//! script text is interpreted by `simrt::proc` (see DESIGN.md §3.4).

use std::ffi::{OsStr, OsString};
use std::future::Future;
use std::io;
use std::os::unix::process::ExitStatusExt;
use std::path::{Path, PathBuf};
use std::pin::Pin;
use std::task::{Context, Poll};

pub use std::process::{ExitStatus, Output, Stdio};

#[derive(Debug)]
pub struct Command {
    program: OsString,
    args: Vec<OsString>,
    dir: Option<PathBuf>,
    /// `stdout(..)` was configured by the caller (taken as `Stdio::piped()`: std's `Stdio` cannot
    /// be inspected, and piping is why callers configure it)
    stdout_configured: bool,
}

impl Command {
    pub fn new<S: AsRef<OsStr>>(program: S) -> Command {
        Command { program: program.as_ref().to_owned(), args: vec![], dir: None, stdout_configured: false }
    }
    pub fn arg<S: AsRef<OsStr>>(&mut self, arg: S) -> &mut Command {
        self.args.push(arg.as_ref().to_owned());
        self
    }
    pub fn args<I, S>(&mut self, args: I) -> &mut Command
    where
        I: IntoIterator<Item = S>,
        S: AsRef<OsStr>,
    {
        for a in args {
            self.args.push(a.as_ref().to_owned());
        }
        self
    }
    pub fn env<K: AsRef<OsStr>, V: AsRef<OsStr>>(&mut self, _key: K, _val: V) -> &mut Command {
        self
    }
    pub fn current_dir<P: AsRef<Path>>(&mut self, dir: P) -> &mut Command {
        self.dir = Some(dir.as_ref().to_owned());
        self
    }
    pub fn stdin<T: Into<Stdio>>(&mut self, _cfg: T) -> &mut Command {
        self
    }
    pub fn stdout<T: Into<Stdio>>(&mut self, _cfg: T) -> &mut Command {
        self.stdout_configured = true;
        self
    }
    pub fn stderr<T: Into<Stdio>>(&mut self, _cfg: T) -> &mut Command {
        self
    }
    pub fn kill_on_drop(&mut self, _v: bool) -> &mut Command {
        self
    }

    fn script(&self) -> String {
        // `/bin/sh -ce <script>`: the script is the last argument
        let _ = &self.program;
        self.args.last().map(|s| s.to_string_lossy().into_owned()).unwrap_or_default()
    }

    pub fn spawn(&mut self) -> io::Result<Child> {
        let dir = self.dir.clone().unwrap_or_else(|| PathBuf::from("."));
        // `/bin/sh -ce <script>`: the flags are the argument before the script
        let flags = if self.args.len() >= 2 { self.args[self.args.len() - 2].to_string_lossy().into_owned() } else { String::new() };
        let pid = simrt::proc::spawn(&self.script(), dir, &flags, self.stdout_configured)?;
        Ok(Child { pid, stdin: None, stdout: if self.stdout_configured { Some(ChildStdout { pid }) } else { None }, stderr: None })
    }

    pub fn status(&mut self) -> impl Future<Output = io::Result<ExitStatus>> {
        let child = self.spawn();
        async move { child?.status().await }
    }

    pub fn output(&mut self) -> impl Future<Output = io::Result<Output>> {
        // `output()` drains stdout while it waits: no back-pressure, whatever was configured
        let configured = std::mem::replace(&mut self.stdout_configured, false);
        let child = self.spawn();
        self.stdout_configured = configured;
        async move {
            let mut child = child?;
            let status = child.status().await?;
            let stdout = simrt::proc::take_stdout(child.pid);
            Ok(Output { status, stdout, stderr: vec![] })
        }
    }
}

#[derive(Debug)]
pub struct Child {
    pid: usize,
    pub stdin: Option<ChildStdin>,
    pub stdout: Option<ChildStdout>,
    pub stderr: Option<ChildStderr>,
}

#[derive(Debug)]
pub struct ChildStdin(());
#[derive(Debug)]
pub struct ChildStderr(());

/// Read end of the pipe a script's stdout was connected to.
#[derive(Debug)]
pub struct ChildStdout {
    pid: usize,
}

impl futures_io::AsyncRead for ChildStdout {
    fn poll_read(self: Pin<&mut Self>, cx: &mut Context<'_>, buf: &mut [u8]) -> Poll<io::Result<usize>> {
        if buf.is_empty() {
            return Poll::Ready(Ok(0));
        }
        simrt::proc::pipe_read(self.pid, buf, cx.waker())
    }
}

impl futures_io::AsyncRead for ChildStderr {
    fn poll_read(self: Pin<&mut Self>, _cx: &mut Context<'_>, _buf: &mut [u8]) -> Poll<io::Result<usize>> {
        Poll::Ready(Ok(0))
    }
}

impl Child {
    pub fn id(&self) -> u32 {
        self.pid as u32
    }
    pub fn kill(&mut self) -> io::Result<()> {
        simrt::proc::kill(self.pid)
    }
    pub fn status(&mut self) -> impl Future<Output = io::Result<ExitStatus>> {
        Status { pid: self.pid, first: true }
    }
    pub fn try_status(&mut self) -> io::Result<Option<ExitStatus>> {
        let w = std::task::Waker::noop();
        Ok(simrt::proc::poll_status(self.pid, w).map(ExitStatus::from_raw))
    }
}

impl Drop for Child {
    fn drop(&mut self) {
        simrt::proc::handle_dropped(self.pid);
    }
}

struct Status {
    pid: usize,
    first: bool,
}

impl Future for Status {
    type Output = io::Result<ExitStatus>;
    fn poll(mut self: Pin<&mut Self>, cx: &mut Context<'_>) -> Poll<Self::Output> {
        if self.first {
            self.first = false;
            if simrt::rt::poll_sched_point(cx, "status").is_pending() {
                return Poll::Pending;
            }
        }
        match simrt::proc::poll_status(self.pid, cx.waker()) {
            Some(raw) => Poll::Ready(Ok(ExitStatus::from_raw(raw))),
            None => Poll::Pending,
        }
    }
}
