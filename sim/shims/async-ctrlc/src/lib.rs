//! Shim with the name of `async-ctrlc`: the future resolves when the simulator delivers the
//! virtual termination signal.

use std::future::Future;
use std::pin::Pin;
use std::task::{Context, Poll};

#[derive(Debug)]
pub struct Error(&'static str);
impl std::fmt::Display for Error {
    fn fmt(&self, f: &mut std::fmt::Formatter<'_>) -> std::fmt::Result {
        write!(f, "{}", self.0)
    }
}
impl std::error::Error for Error {}

#[derive(Debug)]
pub struct CtrlC(());

impl CtrlC {
    pub fn new() -> Result<CtrlC, Error> {
        simrt::rt::with(|rt| {
            if rt.signal.registered {
                return Err(Error("Ctrl-C error: Ctrl-C signal handler already registered"));
            }
            rt.signal.registered = true;
            rt.signal.handles_term = cfg!(feature = "termination");
            Ok(CtrlC(()))
        })
    }
}

impl Future for CtrlC {
    type Output = ();
    fn poll(self: Pin<&mut Self>, cx: &mut Context<'_>) -> Poll<()> {
        simrt::rt::with(|rt| {
            // like the real crate: one flag, set by the handler, consumed by the poll that sees
            // it (signals coalesce; the future can be awaited again for the next signal)
            if rt.signal.fired {
                rt.signal.fired = false;
                Poll::Ready(())
            } else {
                rt.signal.wakers.push(cx.waker().clone());
                rt.note_parked("ctrlc");
                Poll::Pending
            }
        })
    }
}

impl Drop for CtrlC {
    fn drop(&mut self) {
        let _ = simrt::rt::try_with(|rt| rt.signal.registered = false);
    }
}


impl futures_core::Stream for CtrlC {
    type Item = ();
    fn poll_next(self: Pin<&mut Self>, cx: &mut Context<'_>) -> Poll<Option<()>> {
        Future::poll(self, cx).map(Some)
    }
}
