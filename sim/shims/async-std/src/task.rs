use std::future::Future;
use std::pin::Pin;
use std::task::{Context, Poll};

pub struct JoinHandle<T>(simrt::rt::JoinHandle<T>);

// The simulation is single-threaded; the handle only crosses await points inside it.
unsafe impl<T> Send for JoinHandle<T> {}
unsafe impl<T> Sync for JoinHandle<T> {}
impl<T> Unpin for JoinHandle<T> {}

impl<T> Future for JoinHandle<T> {
    type Output = T;
    fn poll(mut self: Pin<&mut Self>, cx: &mut Context<'_>) -> Poll<T> {
        Pin::new(&mut self.0).poll(cx)
    }
}

impl<T> std::fmt::Debug for JoinHandle<T> {
    fn fmt(&self, f: &mut std::fmt::Formatter<'_>) -> std::fmt::Result {
        write!(f, "JoinHandle(t{})", self.0.task_id)
    }
}

pub fn spawn<F, T>(future: F) -> JoinHandle<T>
where
    F: Future<Output = T> + Send + 'static,
    T: Send + 'static,
{
    JoinHandle(simrt::rt::spawn(future, "task"))
}

pub fn spawn_local<F, T>(future: F) -> JoinHandle<T>
where
    F: Future<Output = T> + 'static,
    T: 'static,
{
    JoinHandle(simrt::rt::spawn(future, "task"))
}

pub fn spawn_blocking<F, T>(f: F) -> JoinHandle<T>
where
    F: FnOnce() -> T + Send + 'static,
    T: Send + 'static,
{
    JoinHandle(simrt::spawn_blocking(f))
}

pub fn block_on<F, T>(future: F) -> T
where
    F: Future<Output = T>,
{
    simrt::rt::block_on(future)
}

pub async fn yield_now() {
    simrt::rt::sched_point("yield_now").await
}

/// A sleep ends when the scheduler lets its (abstract) timer expire.
pub async fn sleep(dur: std::time::Duration) {
    simrt::timer(&format!("sleep({:?})", dur)).await
}
