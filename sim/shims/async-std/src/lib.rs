//! Shim with the name of `async-std`: executor, channels, blocking pool, `fs` and `path` are
//! owned by the simulator; pure combinators (`prelude`, `io`, `stream`, `future`) are the real
//! crate's.
#![allow(clippy::all)]

pub use real_async_std::{io, prelude, stream};

pub mod future {
    //! the real combinators, except `timeout`, which runs on the simulator's abstract timers
    pub use real_async_std::future::{pending, poll_fn, ready, Future, IntoFuture};
    use std::time::Duration;

    #[derive(Clone, Copy, Debug, PartialEq, Eq)]
    pub struct TimeoutError {
        _private: (),
    }
    impl std::fmt::Display for TimeoutError {
        fn fmt(&self, f: &mut std::fmt::Formatter<'_>) -> std::fmt::Result {
            write!(f, "future has timed out")
        }
    }
    impl std::error::Error for TimeoutError {}

    pub async fn timeout<F, T>(dur: Duration, f: F) -> Result<T, TimeoutError>
    where
        F: std::future::Future<Output = T>,
    {
        let mut timer = std::pin::pin!(simrt::timer(&format!("timeout({:?})", dur)));
        let mut f = std::pin::pin!(f);
        std::future::poll_fn(move |cx| {
            if let std::task::Poll::Ready(v) = f.as_mut().poll(cx) {
                return std::task::Poll::Ready(Ok(v));
            }
            match timer.as_mut().poll(cx) {
                std::task::Poll::Ready(()) => std::task::Poll::Ready(Err(TimeoutError { _private: () })),
                std::task::Poll::Pending => std::task::Poll::Pending,
            }
        })
        .await
    }
}

pub mod channel {
    pub use simrt::chan::{bounded, unbounded, Receiver, RecvError, SendError, Sender, TryRecvError, TrySendError};
    /// Hook H1 entry point (see DESIGN.md §11).
    pub use simrt::chan::register_debug;
}

/// `async_std::sync`: the real lock types (async-lock: pure futures, no thread of their own,
/// so they run unchanged on the simulator's executor) behind a scheduling point before every
/// acquisition, so that who gets a lock first is a scheduler decision. A task waiting for a lock
/// that is never released shows up as a stall.
pub mod sync {
    pub use real_async_std::sync::{Arc, Barrier, BarrierWaitResult, MutexGuard, RwLockReadGuard, RwLockWriteGuard, Weak};

    pub struct Mutex<T: ?Sized>(real_async_std::sync::Mutex<T>);
    impl<T> Mutex<T> {
        pub const fn new(t: T) -> Self {
            Mutex(real_async_std::sync::Mutex::new(t))
        }
        pub fn into_inner(self) -> T {
            self.0.into_inner()
        }
    }
    impl<T: ?Sized> Mutex<T> {
        pub async fn lock(&self) -> MutexGuard<'_, T> {
            simrt::rt::sched_point("mutex-lock").await;
            self.0.lock().await
        }
        pub fn try_lock(&self) -> Option<MutexGuard<'_, T>> {
            self.0.try_lock()
        }
        pub fn get_mut(&mut self) -> &mut T {
            self.0.get_mut()
        }
    }
    impl<T: Default> Default for Mutex<T> {
        fn default() -> Self {
            Mutex::new(T::default())
        }
    }

    pub struct RwLock<T: ?Sized>(real_async_std::sync::RwLock<T>);
    impl<T> RwLock<T> {
        pub const fn new(t: T) -> Self {
            RwLock(real_async_std::sync::RwLock::new(t))
        }
        pub fn into_inner(self) -> T {
            self.0.into_inner()
        }
    }
    impl<T: ?Sized> RwLock<T> {
        pub async fn read(&self) -> RwLockReadGuard<'_, T> {
            simrt::rt::sched_point("rwlock-read").await;
            self.0.read().await
        }
        pub async fn write(&self) -> RwLockWriteGuard<'_, T> {
            simrt::rt::sched_point("rwlock-write").await;
            self.0.write().await
        }
        pub fn get_mut(&mut self) -> &mut T {
            self.0.get_mut()
        }
    }
}

pub mod fs;
pub mod path;
pub mod task;
