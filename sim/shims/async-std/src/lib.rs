//! Shim with the name of `async-std`: executor, channels, blocking pool, `fs` and `path` are
//! owned by the simulator; pure combinators (`prelude`, `io`, `stream`, `future`) are the real
//! crate's.
#![allow(clippy::all)]

pub use real_async_std::{io, prelude, stream};

pub mod future {
    //! the real combinators, except `timeout`, which runs on the simulator's abstract timers
    pub use real_async_std::future::{pending, poll_fn, ready, Future, IntoFuture};
    use std::time::Duration;

    #[derive(Clone, Copy, Debug, PartialEq, Eq)]
    pub struct TimeoutError {
        _private: (),
    }
    impl std::fmt::Display for TimeoutError {
        fn fmt(&self, f: &mut std::fmt::Formatter<'_>) -> std::fmt::Result {
            write!(f, "future has timed out")
        }
    }
    impl std::error::Error for TimeoutError {}

    pub async fn timeout<F, T>(dur: Duration, f: F) -> Result<T, TimeoutError>
    where
        F: std::future::Future<Output = T>,
    {
        let mut timer = std::pin::pin!(simrt::timer(&format!("timeout({:?})", dur)));
        let mut f = std::pin::pin!(f);
        std::future::poll_fn(move |cx| {
            if let std::task::Poll::Ready(v) = f.as_mut().poll(cx) {
                return std::task::Poll::Ready(Ok(v));
            }
            match timer.as_mut().poll(cx) {
                std::task::Poll::Ready(()) => std::task::Poll::Ready(Err(TimeoutError { _private: () })),
                std::task::Poll::Pending => std::task::Poll::Pending,
            }
        })
        .await
    }
}

pub mod channel {
    pub use simrt::chan::{bounded, unbounded, Receiver, RecvError, SendError, Sender, TryRecvError, TrySendError};
    /// Hook H1 entry point (see DESIGN.md §11).
    pub use simrt::chan::register_debug;
}

pub mod fs;
pub mod path;
pub mod task;
