//! Shim with the name of `async-std`: executor, channels, blocking pool, `fs` and `path` are
//! owned by the simulator; pure combinators (`prelude`, `io`, `stream`, `future`) are the real
//! crate's.
#![allow(clippy::all)]

pub use real_async_std::{future, io, prelude, stream};

pub mod channel {
    pub use simrt::chan::{bounded, unbounded, Receiver, RecvError, SendError, Sender, TryRecvError, TrySendError};
    /// Hook H1 entry point (see DESIGN.md §11).
    pub use simrt::chan::register_debug;
}

pub mod fs;
pub mod path;
pub mod task;
