//! `async_std::fs` on the simulator: each call is one scheduling point followed by the
//! `std::fs` operation executed inline (atomically).

use crate::path::{Path, PathBuf};
use simrt::blocking_op;
use std::io;
use std::pin::Pin;
use std::task::{Context, Poll};

pub use std::fs::{FileType, Metadata, Permissions};

fn sp<P: AsRef<Path>>(p: &P) -> std::path::PathBuf {
    let p: &std::path::Path = p.as_ref().as_ref();
    p.to_path_buf()
}

pub async fn metadata<P: AsRef<Path>>(path: P) -> io::Result<Metadata> {
    let p = sp(&path);
    blocking_op("metadata", &p, || std::fs::metadata(&p)).await
}
pub async fn symlink_metadata<P: AsRef<Path>>(path: P) -> io::Result<Metadata> {
    let p = sp(&path);
    blocking_op("symlink_metadata", &p, || std::fs::symlink_metadata(&p)).await
}
pub async fn canonicalize<P: AsRef<Path>>(path: P) -> io::Result<PathBuf> {
    let p = sp(&path);
    blocking_op("canonicalize", &p, || std::fs::canonicalize(&p).map(Into::into)).await
}
pub async fn read_link<P: AsRef<Path>>(path: P) -> io::Result<PathBuf> {
    let p = sp(&path);
    blocking_op("read_link", &p, || std::fs::read_link(&p).map(Into::into)).await
}
pub async fn remove_file<P: AsRef<Path>>(path: P) -> io::Result<()> {
    let p = sp(&path);
    blocking_op("remove_file", &p, || std::fs::remove_file(&p)).await
}
pub async fn remove_dir<P: AsRef<Path>>(path: P) -> io::Result<()> {
    let p = sp(&path);
    blocking_op("remove_dir", &p, || std::fs::remove_dir(&p)).await
}
pub async fn remove_dir_all<P: AsRef<Path>>(path: P) -> io::Result<()> {
    let p = sp(&path);
    blocking_op("remove_dir_all", &p, || std::fs::remove_dir_all(&p)).await
}
pub async fn create_dir<P: AsRef<Path>>(path: P) -> io::Result<()> {
    let p = sp(&path);
    blocking_op("create_dir", &p, || std::fs::create_dir(&p)).await
}
pub async fn create_dir_all<P: AsRef<Path>>(path: P) -> io::Result<()> {
    let p = sp(&path);
    blocking_op("create_dir_all", &p, || std::fs::create_dir_all(&p)).await
}
pub async fn rename<P: AsRef<Path>, Q: AsRef<Path>>(from: P, to: Q) -> io::Result<()> {
    let f = sp(&from);
    let t = sp(&to);
    blocking_op("rename", &f, || std::fs::rename(&f, &t)).await
}
pub async fn copy<P: AsRef<Path>, Q: AsRef<Path>>(from: P, to: Q) -> io::Result<u64> {
    let f = sp(&from);
    let t = sp(&to);
    blocking_op("copy", &f, || std::fs::copy(&f, &t)).await
}
pub async fn read<P: AsRef<Path>>(path: P) -> io::Result<Vec<u8>> {
    let p = sp(&path);
    blocking_op("read", &p, || std::fs::read(&p)).await
}
pub async fn read_to_string<P: AsRef<Path>>(path: P) -> io::Result<String> {
    let p = sp(&path);
    blocking_op("read_to_string", &p, || std::fs::read_to_string(&p)).await
}
pub async fn write<P: AsRef<Path>, C: AsRef<[u8]>>(path: P, contents: C) -> io::Result<()> {
    let p = sp(&path);
    let c = contents.as_ref().to_vec();
    blocking_op("write", &p, || std::fs::write(&p, &c)).await
}
pub async fn set_permissions<P: AsRef<Path>>(path: P, perm: Permissions) -> io::Result<()> {
    let p = sp(&path);
    blocking_op("set_permissions", &p, || std::fs::set_permissions(&p, perm)).await
}

// ------------------------------------------------------------------ read_dir

pub struct DirEntry(std::fs::DirEntry);

impl DirEntry {
    pub fn path(&self) -> PathBuf {
        self.0.path().into()
    }
    pub fn file_name(&self) -> std::ffi::OsString {
        self.0.file_name()
    }
    pub async fn metadata(&self) -> io::Result<Metadata> {
        let p = self.0.path();
        blocking_op("metadata", &p, || std::fs::metadata(&p)).await
    }
    pub async fn file_type(&self) -> io::Result<FileType> {
        let p = self.0.path();
        blocking_op("file_type", &p, || self.0.file_type()).await
    }
}

pub struct ReadDir(std::vec::IntoIter<io::Result<DirEntry>>);

impl futures_core::Stream for ReadDir {
    type Item = io::Result<DirEntry>;
    fn poll_next(mut self: Pin<&mut Self>, _cx: &mut Context<'_>) -> Poll<Option<Self::Item>> {
        Poll::Ready(self.0.next())
    }
}

pub async fn read_dir<P: AsRef<Path>>(path: P) -> io::Result<ReadDir> {
    let p = sp(&path);
    blocking_op("read_dir", &p, || {
        let mut v: Vec<io::Result<DirEntry>> = std::fs::read_dir(&p)?.map(|e| e.map(DirEntry)).collect();
        // directory order is unspecified; keep it deterministic
        v.sort_by_key(|e| e.as_ref().ok().map(|d| d.0.file_name()));
        Ok(ReadDir(v.into_iter()))
    })
    .await
}

// ------------------------------------------------------------------ File

pub struct File {
    inner: std::fs::File,
    path: std::path::PathBuf,
}

impl File {
    pub async fn open<P: AsRef<Path>>(path: P) -> io::Result<File> {
        let p = sp(&path);
        {
            use std::os::unix::fs::FileTypeExt;
            if std::fs::metadata(&p).map(|m| m.file_type().is_fifo()).unwrap_or(false) {
                // open(2) of a named pipe without a writer never returns: in simulated time
                // the calling task simply never becomes ready again
                simrt::rt::with(|rt| {
                    rt.ev("fs-blocked-forever", &format!("open {}", simrt::trace::esc_path(&p)));
                    rt.note_parked("open of a named pipe without writer");
                });
                return std::future::pending::<io::Result<File>>().await;
            }
        }
        let inner = blocking_op("open", &p, || std::fs::File::open(&p)).await?;
        Ok(File { inner, path: p })
    }
    pub async fn create<P: AsRef<Path>>(path: P) -> io::Result<File> {
        let p = sp(&path);
        let inner = blocking_op("create", &p, || std::fs::File::create(&p)).await?;
        Ok(File { inner, path: p })
    }
    pub async fn metadata(&self) -> io::Result<Metadata> {
        blocking_op("fmetadata", &self.path, || self.inner.metadata()).await
    }
    pub async fn sync_all(&self) -> io::Result<()> {
        blocking_op("sync_all", &self.path, || self.inner.sync_all()).await
    }
    pub async fn sync_data(&self) -> io::Result<()> {
        blocking_op("sync_data", &self.path, || self.inner.sync_data()).await
    }
    pub async fn set_len(&self, size: u64) -> io::Result<()> {
        blocking_op("set_len", &self.path, || self.inner.set_len(size)).await
    }
}

impl futures_io::AsyncRead for File {
    fn poll_read(mut self: Pin<&mut Self>, cx: &mut Context<'_>, buf: &mut [u8]) -> Poll<io::Result<usize>> {
        if simrt::rt::poll_sched_point(cx, "file-read").is_pending() {
            return Poll::Pending;
        }
        let fault = simrt::rt::with(|rt| rt.fault("fs.file-read"));
        match fault.as_deref() {
            Some("short") => {
                let n = buf.len().min(1);
                Poll::Ready(io::Read::read(&mut self.inner, &mut buf[..n]))
            }
            Some(_) => Poll::Ready(Err(io::Error::from_raw_os_error(5))),
            None => Poll::Ready(io::Read::read(&mut self.inner, buf)),
        }
    }
}

impl futures_io::AsyncWrite for File {
    fn poll_write(mut self: Pin<&mut Self>, cx: &mut Context<'_>, buf: &[u8]) -> Poll<io::Result<usize>> {
        if simrt::rt::poll_sched_point(cx, "file-write").is_pending() {
            return Poll::Pending;
        }
        Poll::Ready(io::Write::write(&mut self.inner, buf))
    }
    fn poll_flush(mut self: Pin<&mut Self>, _cx: &mut Context<'_>) -> Poll<io::Result<()>> {
        Poll::Ready(io::Write::flush(&mut self.inner))
    }
    fn poll_close(self: Pin<&mut Self>, _cx: &mut Context<'_>) -> Poll<io::Result<()>> {
        Poll::Ready(Ok(()))
    }
}

impl futures_io::AsyncSeek for File {
    fn poll_seek(mut self: Pin<&mut Self>, _cx: &mut Context<'_>, pos: io::SeekFrom) -> Poll<io::Result<u64>> {
        Poll::Ready(io::Seek::seek(&mut self.inner, pos))
    }
}
