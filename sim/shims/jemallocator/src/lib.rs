//! No property depends on the allocator; the shim avoids building jemalloc's C sources.
pub type Jemalloc = std::alloc::System;
#[allow(non_upper_case_globals)]
pub const Jemalloc: Jemalloc = std::alloc::System;
