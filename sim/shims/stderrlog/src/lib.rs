pub struct StdErrLog {
    module: String,
    verbosity: usize,
    quiet: bool,
}

pub fn new() -> StdErrLog {
    StdErrLog { module: String::new(), verbosity: 0, quiet: false }
}

impl StdErrLog {
    pub fn module<T: Into<String>>(&mut self, module: T) -> &mut StdErrLog {
        self.module = module.into();
        self
    }
    pub fn verbosity(&mut self, verbosity: usize) -> &mut StdErrLog {
        self.verbosity = verbosity;
        self
    }
    pub fn quiet(&mut self, quiet: bool) -> &mut StdErrLog {
        self.quiet = quiet;
        self
    }
    pub fn init(&mut self) -> Result<(), log::SetLoggerError> {
        simrt::init_logger(&self.module, if self.quiet { 0 } else { self.verbosity })
    }
}
