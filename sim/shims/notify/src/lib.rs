//! Shim with the name of `notify`: the watcher registers zinoma's real callback with the
//! simulator's virtual inotify (DESIGN.md §3.5). Only what zinoma's callback can observe is
//! modelled: the kind and path list of each event (inotify back end of notify 6.1.1), and `watch()` failing on a missing path with
//! `ErrorKind::Io(NotFound)` exactly like notify 6.1.1's inotify back end.

use std::path::{Path, PathBuf};
use std::time::Duration;

#[derive(Debug)]
pub enum ErrorKind {
    Generic(String),
    Io(std::io::Error),
    PathNotFound,
    WatchNotFound,
    InvalidConfig(Config),
    MaxFilesWatch,
}

#[derive(Debug)]
pub struct Error {
    pub kind: ErrorKind,
    pub paths: Vec<PathBuf>,
}

impl Error {
    pub fn new(kind: ErrorKind) -> Self {
        Error { kind, paths: vec![] }
    }
    pub fn add_path(mut self, p: PathBuf) -> Self {
        self.paths.push(p);
        self
    }
    pub fn generic(msg: &str) -> Self {
        Error::new(ErrorKind::Generic(msg.into()))
    }
    pub fn io(err: std::io::Error) -> Self {
        Error::new(ErrorKind::Io(err))
    }
    pub fn path_not_found() -> Self {
        Error::new(ErrorKind::PathNotFound)
    }
}

impl std::fmt::Display for Error {
    fn fmt(&self, f: &mut std::fmt::Formatter<'_>) -> std::fmt::Result {
        let error = match &self.kind {
            ErrorKind::PathNotFound => "No path was found.".into(),
            ErrorKind::WatchNotFound => "No watch was found.".into(),
            ErrorKind::InvalidConfig(c) => format!("Invalid configuration: {:?}", c),
            ErrorKind::Generic(e) => e.clone(),
            ErrorKind::Io(e) => e.to_string(),
            ErrorKind::MaxFilesWatch => "OS file watch limit reached.".into(),
        };
        if self.paths.is_empty() {
            write!(f, "{}", error)
        } else {
            write!(f, "{} about {:?}", error, self.paths)
        }
    }
}

impl std::error::Error for Error {}

pub type Result<T> = std::result::Result<T, Error>;

#[derive(Clone, Copy, Debug, PartialEq, Eq, Hash)]
pub struct Config {
    poll_interval: Option<Duration>,
    compare_contents: bool,
}

impl Default for Config {
    fn default() -> Self {
        Config { poll_interval: Some(Duration::from_secs(30)), compare_contents: false }
    }
}

impl Config {
    pub fn with_poll_interval(mut self, dur: Duration) -> Self {
        self.poll_interval = Some(dur);
        self
    }
    pub fn with_compare_contents(mut self, v: bool) -> Self {
        self.compare_contents = v;
        self
    }
}

#[derive(Clone, Copy, Debug, PartialEq, Eq, Hash)]
pub enum RecursiveMode {
    Recursive,
    NonRecursive,
}

pub mod event {
    //! Event kinds as in notify 6.1.1 (the subset of the type structure a callback can match on).
    #[derive(Clone, Copy, Debug, PartialEq, Eq, Hash)]
    pub enum AccessMode { Any, Execute, Read, Write, Other }
    #[derive(Clone, Copy, Debug, PartialEq, Eq, Hash)]
    pub enum AccessKind { Any, Read, Open(AccessMode), Close(AccessMode), Other }
    #[derive(Clone, Copy, Debug, PartialEq, Eq, Hash)]
    pub enum CreateKind { Any, File, Folder, Other }
    #[derive(Clone, Copy, Debug, PartialEq, Eq, Hash)]
    pub enum DataChange { Any, Size, Content, Other }
    #[derive(Clone, Copy, Debug, PartialEq, Eq, Hash)]
    pub enum MetadataKind { Any, AccessTime, WriteTime, Permissions, Ownership, Extended, Other }
    #[derive(Clone, Copy, Debug, PartialEq, Eq, Hash)]
    pub enum RenameMode { Any, To, From, Both, Other }
    #[derive(Clone, Copy, Debug, PartialEq, Eq, Hash)]
    pub enum ModifyKind { Any, Data(DataChange), Metadata(MetadataKind), Name(RenameMode), Other }
    #[derive(Clone, Copy, Debug, PartialEq, Eq, Hash)]
    pub enum RemoveKind { Any, File, Folder, Other }

    #[derive(Clone, Copy, Debug, PartialEq, Eq, Hash, Default)]
    pub enum EventKind {
        #[default]
        Any,
        Access(AccessKind),
        Create(CreateKind),
        Modify(ModifyKind),
        Remove(RemoveKind),
        Other,
    }

    impl EventKind {
        pub fn is_access(&self) -> bool { matches!(self, EventKind::Access(_)) }
        pub fn is_create(&self) -> bool { matches!(self, EventKind::Create(_)) }
        pub fn is_modify(&self) -> bool { matches!(self, EventKind::Modify(_)) }
        pub fn is_remove(&self) -> bool { matches!(self, EventKind::Remove(_)) }
        pub fn is_other(&self) -> bool { matches!(self, EventKind::Other) }
    }
}
pub use event::EventKind;

#[derive(Clone, Debug, PartialEq, Eq, Hash, Default)]
pub struct Event {
    pub kind: EventKind,
    pub paths: Vec<PathBuf>,
    /// stands for `attrs.flag() == Some(Flag::Rescan)`: the kernel queue overflowed, events were
    /// lost; notify reports it as `EventKind::Other` with NO path
    rescan: bool,
}

impl Event {
    pub fn new(kind: EventKind) -> Self {
        Event { kind, paths: vec![], rescan: false }
    }
    pub fn need_rescan(&self) -> bool {
        self.rescan
    }
}

fn kind_of(code: u8) -> EventKind {
    use event::*;
    match code {
        simrt::vfs::K_CREATE => EventKind::Create(CreateKind::File),
        simrt::vfs::K_MODIFY_DATA => EventKind::Modify(ModifyKind::Data(DataChange::Any)),
        simrt::vfs::K_CLOSE_WRITE => EventKind::Access(AccessKind::Close(AccessMode::Write)),
        simrt::vfs::K_METADATA => EventKind::Modify(ModifyKind::Metadata(MetadataKind::Any)),
        simrt::vfs::K_REMOVE => EventKind::Remove(RemoveKind::File),
        simrt::vfs::K_RENAME_FROM => EventKind::Modify(ModifyKind::Name(RenameMode::From)),
        simrt::vfs::K_RENAME_TO => EventKind::Modify(ModifyKind::Name(RenameMode::To)),
        simrt::vfs::K_RENAME_BOTH => EventKind::Modify(ModifyKind::Name(RenameMode::Both)),
        simrt::vfs::K_RESCAN => EventKind::Other,
        _ => EventKind::Any,
    }
}

pub trait EventHandler: Send + 'static {
    fn handle_event(&mut self, event: Result<Event>);
}

impl<F> EventHandler for F
where
    F: FnMut(Result<Event>) + Send + 'static,
{
    fn handle_event(&mut self, event: Result<Event>) {
        (self)(event);
    }
}

pub trait Watcher {
    fn new<F: EventHandler>(event_handler: F, config: Config) -> Result<Self>
    where
        Self: Sized;
    fn watch(&mut self, path: &Path, recursive_mode: RecursiveMode) -> Result<()>;
    fn unwatch(&mut self, path: &Path) -> Result<()>;
}

#[derive(Debug)]
pub struct INotifyWatcher {
    id: usize,
}

pub type RecommendedWatcher = INotifyWatcher;

impl Watcher for INotifyWatcher {
    fn new<F: EventHandler>(mut event_handler: F, _config: Config) -> Result<Self> {
        let id = simrt::vfs::new_watcher(Box::new(move |kind, paths| {
            event_handler.handle_event(Ok(Event { kind: kind_of(kind), paths, rescan: kind == simrt::vfs::K_RESCAN }))
        }));
        Ok(INotifyWatcher { id })
    }

    fn watch(&mut self, path: &Path, _recursive_mode: RecursiveMode) -> Result<()> {
        match simrt::vfs::watch(self.id, path) {
            Ok(()) => Ok(()),
            // notify 6.1.1, inotify.rs `add_watch`: the metadata / inotify_add_watch failure is
            // wrapped as `Error::io(e).add_path(path)`; PathNotFound is never produced here.
            Err(simrt::vfs::WatchError::NotFound) => {
                Err(Error::io(std::io::Error::from_raw_os_error(2)).add_path(path.to_path_buf()))
            }
            // ENOSPC from inotify_add_watch is what notify 6.1.1 turns into MaxFilesWatch
            Err(simrt::vfs::WatchError::Limit) => Err(Error::new(ErrorKind::MaxFilesWatch).add_path(path.to_path_buf())),
        }
    }

    fn unwatch(&mut self, _path: &Path) -> Result<()> {
        Ok(())
    }
}

impl Drop for INotifyWatcher {
    fn drop(&mut self) {
        simrt::vfs::close_watcher(self.id);
    }
}

pub fn recommended_watcher<F: EventHandler>(event_handler: F) -> Result<RecommendedWatcher> {
    RecommendedWatcher::new(event_handler, Config::default())
}
