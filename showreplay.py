#!/usr/bin/env python3
import json,sys
r=json.load(open(sys.argv[1]))
print("property",r['property'],"case",r['case'],"minimised",r['minimised'])
print("violation:",r['violation']['oracle'],"|",r['violation']['witness'])
sc=r['scenario']
print("label",sc['label'],"vars",sc['vars'])
for pi,p in enumerate(sc['projects']):
  print(" project",pi,p['dir'],p['name'],"imports",p['imports'])
  for t in p['targets']:
    print("   ",t['name'],t['kind'],"deps",[(d['project'],d['target'],'D' if d['via_dep'] else '', 'O' if d['via_output'] else '') for d in t['deps']],"in",t['input'],"out",t['output'],"writes",t['writes'], "exit",t['exit'])
print(" files",[ (f['path'], (list(f['kind'].keys())[0] if isinstance(f['kind'],dict) else f['kind'])) for f in sc['files']])
for s in sc['steps']:
  if 'Invoke' in s:
    inv=s['Invoke']; pl=inv['plan']
    ch=pl.get('choices')
    print(" INVOKE entry",inv['entry'],inv['args'],"hash",inv['hash_seed'],pl['strategy'],"faults",pl['faults'],"events",[ (e['id'],e['gate']) for e in pl['events']],"crash",pl.get('crash_at'),"choices", (len(ch), [ (i,c) for i,c in enumerate(ch) if c]) if ch is not None else None)
  else: print(" ",s)
