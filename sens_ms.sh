#!/bin/bash
# usage: sens_ms.sh <patch.diff> <ID> [first-seed] [last-seed]   one check against a change at several VERIF_SEEDs
patch="$1"; id="$2"; a="${3:-1}"; b="${4:-5}"
cd "$(dirname "$(readlink -f "$0")")"
for s in $(seq "$a" "$b"); do
  sed "s/ZCHECK_SLOT=fg/VERIF_SEED=$s ZCHECK_SLOT=fg/" sens.sh > .sens_ms_tmp.sh
  echo "seed $s: $(bash .sens_ms_tmp.sh "$patch" "$id" 2>&1 | tail -1 | cut -c1-170)"
done
rm -f .sens_ms_tmp.sh
