#!/bin/bash
# usage: multiseed.sh <ID> [first-seed] [last-seed]    the unchanged tree at several VERIF_SEEDs, in a slot of its own
id="$1"; a="${2:-1}"; b="${3:-8}"
cd "$(dirname "$(readlink -f "$0")")"
for s in $(seq "$a" "$b"); do echo "seed $s: $(VERIF_SEED=$s ZCHECK_SLOT=ms ./check "$id" --tier quick 2>&1 | tail -1)"; done
