#!/usr/bin/env python3
"""Writes MANIFEST.json from the table below (single source of truth for the interface)."""
import json

TECH = "deterministic simulation with fault injection: zinoma's real main() on a seeded single-threaded scheduler behind crate-boundary shims; seeded search over schedules, hash orders, external-event orders and faults; replayable, minimised counterexamples"

CHECKS = {
 "C01": ("exploration", "Seeded search over schedules of one-shot runs (with failing / killed dependencies) and --watch sessions with edits placed inside builds: every script/service start must be preceded by readiness of every effective dependency; in watch mode no execution may be decided while the latest word the target's actor received from a dependency is 'Invalidated' (decisions and receipts are observable at the channel seam through hook H1). Sampling, not proof.", "§7 C01"),
 "C02": ("exploration", "Seeded search over invocation/edit histories against an independent reference model (own walker, own records): every observed skip must be justified by a record taken at the target's last successful completion and by the model's comparison (same file set, per file mtime-or-content, same command outputs). Faults: EIO / short reads on zinoma's own file-system calls, and outcomes of the system calls made while a record is stored (write failing with ENOSPC / EIO, short or interrupted writes, open failing); files dated before 1970.", "§7 C02"),
 "C03": ("exploration", "Same history engine on untouched trees, multi-project layouts, identical command text / relative paths in different project directories, other targets failing in the same invocation: a target with inputs, a definite model record and content-equal resources must not have its script started. Short and interrupted write(2) calls while records are stored are injected (no errors: records must be complete); builds that empty their own output directory lying among their inputs; imports and -p through symbolic links.", "§7 C03"),
 "C04": ("exploration", "Seeded search over schedules and graph shapes (deep chains, fan-in/fan-out beyond 2x the shipped queue capacity, 34-90 roots on one command line, very long target names, command resources printing more than a pipe buffer): the run must never reach a state with no runnable task and no enabled event before main returns (stall detection is exact in a one-thread simulation).", "§7 C04"),
 "C05": ("fault_enumeration", "For sampled scenarios and schedules: zinoma killed at EVERY scheduling decision index of the run, SIGINT at every (quick: every 2nd) index, every script outcome (exit!=0, signal, EAGAIN, a failing middle command that only `sh -e` notices), every strict prefix of each record (quick: 32+16 lengths; real torn writes also arise because crash points fall between the write() calls of the record), single-bit flips (tree unchanged / own input rewritten / declared output altered), every byte zeroed with an output altered, garbage and foreign records, the interruptions again followed by a revert of the edited inputs, and each failing script combined with an I/O error on zinoma's own n-th stat/unlink/open, every write(2)/open made while records are stored failing with ENOSPC / EIO / EACCES or being short / interrupted (quick: ~24 evenly spaced writes), and a directory or a named pipe lying where the record should be; each followed by a recovery invocation judged against the complete run R0 and the scripts' real exit statuses.", "§7 C05"),
 "C06": ("exploration", "Seeded search over --watch sessions (populated and clean trees) with bursts of edits gated to land while idle, inside a chosen build, or back to back; version-stamped virtual scripts; at the final idle point outputs must equal the stamp of the final inputs and services must run an instance started from them.", "§7 C06"),
 "C07": ("exploration", "Seeded search over schedules x failing subsets injected through the fault plan (non-zero exit, death by signal, EAGAIN at spawn) in one-shot and --watch runs: non-zero exit naming a failed target, dependents never started / stay blocked, warning + still watching in watch mode, no stall.", "§7 C07"),
 "C08": ("exploration", "Seeded search over schedules with duplicate / double-spelled requests, shared dependencies and --clean T: counts of starts+skips per target and byte comparison of outsiders' state and outputs before/after. Also: target names too long for a record to fit in a directory entry (nothing may be written under a shortened name: every other entry of a work directory counts as outsider state).", "§7 C08"),
 "C10": ("fault_enumeration", "For sampled scenarios (one-shot, watch, wide graphs) and schedules: the termination signal (SIGINT or SIGTERM; whether SIGTERM is handled follows the features /repo/Cargo.toml declares for the ctrlc crate) at every decision index (quick: 96 evenly spaced) and a failure of each build, with all scripts frozen from that instant: main must return (no stall), no build/service shell left running or unreaped, exit status as specified.", "§7 C10"),
 "C11": ("exploration", "Seeded search over service/build/aggregate mixes with the signal delivered only at idle, one-shot and --watch (restarts): keep-alive iff a service stands behind a root; dependency services outlive dependent builds; at most one live instance per service.", "§7 C11"),
 "C12": ("exploration", "Histories containing --clean / --clean T over trees decorated with non-matching files, nested directories and symlinks (to files, directories, dangling, pointing outside; also as the declared output path itself), `[]`/`['']` filters, overlapping or twice-declared paths: recursive tree snapshot after-before must equal the model's deletion set plus script effects; cleaned targets never skipped; zinoma killed at sampled decision indices inside --clean must have deleted nothing outside that set. Declared output paths also spelled through links (`link/`, `link/.`, `link/inner`), failing builds inside `--clean T` invocations, zinoma killed at sampled decision indices inside `--clean`.", "§7 C12"),
 "C13": ("exploration", "History engine on producer/consumer layouts across projects (shared output directories told apart by extension filters, identical command texts): the consumer's decision must equal the model's decision with the producer's output resources appended, both directions.", "§7 C13"),
 "C14": ("exploration", "Arrangements of project files (name clashes, cycles, self-imports, wrong import keys) each executed under 8 seeded hash orders: no panic/abort; same verdict and same started scripts for every hash order. Only the determinism + no-abort half of C14; totality over byte strings and schema strictness are not covered.", "§7 C14"),
 "C16": ("exploration", "--watch sessions with one burst per idle point: irrelevant changes (other extensions, .zinoma incl. zinoma's own state writes, editor temporaries), hostile names (invalid UTF-8, newline, dots, names merely containing `.zinoma`), directories declared through `..` and links, directory touches, path-less rescan events, a failing first run with an input saved meanwhile, relevant changes; the documented relevance rule re-implemented: irrelevant bursts cause no evaluation, relevant ones always do, the session becomes idle again.", "§7 C16"),
 "C17": ("exploration", "Rendezvous-gated virtual scripts on antichains of builds and services (members requested directly, reached as dependencies, or through one aggregate holding a service): completion reachable iff all members overlap; an unstarted member with ready dependencies at idle is the violation. Cases with gated command captures are also run twice over the untouched tree (records exist: the up-to-date checks wait for the commands).", "§7 C17"),
 "C18": ("exploration", "History engine with different requested targets, entry projects (-p root / imported project's own directory), --clean T, failing other targets, edits incl. files under nested .zinoma directories: each decision must equal the model's decision from that target's own resources and own record. Imports and -p through symbolic links; short / interrupted writes while records are stored.", "§7 C18"),
 "C20": ("exploration", "Metamorphic pairs (aggregate vs its dependencies) on two copies of one tree, each side under its own seeded schedule: same started/skipped sets, exit class and keep-alive.", "§7 C20"),
}

NOT_APPLICABLE = {
 "C09": "pure function of the parsed configuration and request list: no schedule, clock, fault or crash point enters the resolver, so there is nothing for a simulator to vary (DESIGN.md §8); closure membership is still asserted by C08's oracle on every run",
 "C15": "pure predicate over (directory tree, declaration): no schedule, fault or interleaving (DESIGN.md §8); the rule is re-implemented in the reference model, so deviations that change a skip/clean/watch decision surface under C02/C12/C16",
 "C19": "pure name resolution over the configuration (DESIGN.md §8); its one dynamic consequence (both spellings run the target once) is in C08's workload",
}
PENDING = {}

m = {
 "version": 1,
 "setup_cmd": "./check setup",
 "hooks": {
  "guard": "zinoma_verif",
  "enable": "cargo rustc --bin zinoma-sim -- --cfg zinoma_verif (done by ./check for the shadow build; the shipped build never sets it)",
  "baseline_off_cmd": "cd /repo && cargo test --workspace --no-fail-fast --offline",
  "source_commits": ["bc4bd51"],
  "add_only": True,
 },
 "engines": [{
  "name": "zsim",
  "path": "sim/",
  "serves_properties": sorted(CHECKS),
  "kind_free_text": "deterministic whole-program simulator: /repo/src compiled unmodified against shim crates named async-std / async-process / notify / async-ctrlc / stderrlog / jemallocator (sim/shims) over a single-threaded seeded executor (sim/simrt); driver zcheck (sim/driver) generates scenarios, runs one process per simulated invocation, evaluates oracles against an independent reference model, minimises and writes replay + evidence",
 }],
 "checks": [],
 "not_applicable": [],
 "notes": "exit 0 = held on everything explored; exit 1 + 'VIOLATION property=<id> replay=<path>' = violation; exit 2 = harness error (build failure, nondeterministic replay, lost reach). VERIF_SEED selects the case seeds (default 1). Known findings: known-findings.jsonl.",
}
for pid in sorted(CHECKS):
    level, text, ref = CHECKS[pid]
    m["checks"].append({
      "property_id": pid,
      "quick_cmd": "./check %s --tier quick" % pid,
      "thorough_cmd": "./check %s --tier thorough" % pid,
      "evidence_file": "evidence/%s.json" % pid,
      "replay_cmd_template": "./check --replay {path}",
      "engine": "zsim",
      "level_claimed": {"category": level, "text": text, "design_ref": "DESIGN.md " + ref},
      "level_note": "Trusted base: the shim crates' models of the executor (nested block_on = blocked worker), processes, inotify and signals (DESIGN.md §12; the inotify model is compared with the real notify crate by ./check stub-conformance, skip/build decisions of whole histories with the real binary by ./check real-diff); blocking-pool closures run on controlled threads and interleave at intercepted file-system calls, reads inside a closure are not split; schedules are sampled, not enumerated.",
      "technique": TECH,
    })
for pid, why in sorted({**NOT_APPLICABLE, **PENDING}.items()):
    m["not_applicable"].append({"property_id": pid, "reason": why})
json.dump(m, open("MANIFEST.json", "w"), indent=1)
print("MANIFEST.json: %d checks, %d not claimed" % (len(m["checks"]), len(m["not_applicable"])))
