#!/usr/bin/env python3
"""Writes MANIFEST.json from the table below (single source of truth for the interface)."""
import json

TECH = "deterministic simulation with fault injection: zinoma's real main() on a seeded single-threaded scheduler behind crate-boundary shims; seeded search over schedules, hash orders, external-event orders and faults; replayable, minimised counterexamples"

CHECKS = {
 "C01": ("exploration", "Seeded search over schedules of one-shot runs (and watch sessions): every script/service start must be preceded by readiness of every effective dependency. Sampling, not proof.", "§7 C01"),
 "C04": ("exploration", "Seeded search over schedules and graph shapes (deep chains, fan-in/fan-out beyond 2x the shipped queue capacity): the run must never reach a state with no runnable task and no enabled event before main returns (stall detection is exact in a one-thread simulation).", "§7 C04"),
 "C07": ("exploration", "Seeded search over schedules x failing subsets injected through the fault plan (non-zero exit, death by signal, EAGAIN at spawn): non-zero exit naming a failed target, dependents never started, no stall.", "§7 C07"),
 "C08": ("exploration", "Seeded search over schedules with duplicate / double-spelled requests and shared dependencies: counts of starts+skips per target and byte comparison of outsiders' state and outputs.", "§7 C08"),
 "C11": ("exploration", "Seeded search over service/build/aggregate mixes with the signal delivered only at idle: keep-alive iff a service stands behind a root; dependency services outlive dependent builds; at most one live instance.", "§7 C11"),
 "C17": ("exploration", "Rendezvous-gated virtual scripts on antichains: completion reachable iff all members overlap; an unstarted member with ready dependencies at idle is the violation.", "§7 C17"),
 "C20": ("exploration", "Metamorphic pairs (aggregate vs its dependencies) on two copies of one tree, each side under its own seeded schedule.", "§7 C20"),
}

NOT_APPLICABLE = {
 "C09": "pure function of the parsed configuration and request list: no schedule, clock, fault or crash point enters the resolver, so there is nothing for a simulator to vary (DESIGN.md §8); closure membership is still asserted by C08's oracle on every run",
 "C15": "pure predicate over (directory tree, declaration): no schedule, fault or interleaving (DESIGN.md §8); the rule is re-implemented in the reference model, so deviations that change a skip/clean/watch decision surface under C02/C12/C16",
 "C19": "pure name resolution over the configuration (DESIGN.md §8); its one dynamic consequence (both spellings run the target once) is in C08's workload",
}
PENDING = {
 "C02": "check not built yet (history engine pending)",
 "C03": "check not built yet (history engine pending)",
 "C05": "check not built yet (crash/corruption enumeration pending)",
 "C06": "check not built yet (watch sessions pending)",
 "C10": "check not built yet (signal-instant enumeration pending)",
 "C12": "check not built yet (clean histories pending)",
 "C13": "check not built yet (producer/consumer layouts pending)",
 "C14": "check not built yet (hash-seed sweep pending)",
 "C16": "check not built yet (watch sessions pending)",
 "C18": "check not built yet (invocation sequences pending)",
}

m = {
 "version": 1,
 "setup_cmd": "./check setup",
 "hooks": {
  "guard": "zinoma_verif",
  "enable": "cargo rustc --bin zinoma-sim -- --cfg zinoma_verif (done by ./check for the shadow build; the shipped build never sets it)",
  "baseline_off_cmd": "cd /repo && cargo test --workspace --no-fail-fast --offline",
  "source_commits": ["bc4bd51"],
  "add_only": True,
 },
 "engines": [{
  "name": "zsim",
  "path": "sim/",
  "serves_properties": sorted(CHECKS),
  "kind_free_text": "deterministic whole-program simulator: /repo/src compiled unmodified against shim crates named async-std / async-process / notify / async-ctrlc / stderrlog / jemallocator (sim/shims) over a single-threaded seeded executor (sim/simrt); driver zcheck (sim/driver) generates scenarios, runs one process per simulated invocation, evaluates oracles against an independent reference model, minimises and writes replay + evidence",
 }],
 "checks": [],
 "not_applicable": [],
 "notes": "exit 0 = held on everything explored; exit 1 + 'VIOLATION property=<id> replay=<path>' = violation; exit 2 = harness error (build failure, nondeterministic replay, lost reach). VERIF_SEED selects the case seeds (default 1). Known findings: known-findings.jsonl.",
}
for pid in sorted(CHECKS):
    level, text, ref = CHECKS[pid]
    m["checks"].append({
      "property_id": pid,
      "quick_cmd": "./check %s --tier quick" % pid,
      "thorough_cmd": "./check %s --tier thorough" % pid,
      "evidence_file": "evidence/%s.json" % pid,
      "replay_cmd_template": "./check --replay {path}",
      "engine": "zsim",
      "level_claimed": {"category": level, "text": text, "design_ref": "DESIGN.md " + ref},
      "level_note": "Trusted base: the shim crates' models of the executor, blocking pool, processes, inotify and signals (DESIGN.md §12); atomicity of blocking closures; sampling of schedules, not enumeration.",
      "technique": TECH,
    })
for pid, why in sorted({**NOT_APPLICABLE, **PENDING}.items()):
    m["not_applicable"].append({"property_id": pid, "reason": why})
json.dump(m, open("MANIFEST.json", "w"), indent=1)
print("MANIFEST.json: %d checks, %d not claimed" % (len(m["checks"]), len(m["not_applicable"])))
