#!/bin/bash
# usage: sens.sh <patch.diff> <ID> [<ID>...]   apply a seeded change to /repo, run quick checks, undo it
patch="$1"; shift
cd /repo || exit 2
if ! git diff --quiet; then echo "/repo has uncommitted changes"; exit 2; fi
git apply "$patch" || { echo "patch does not apply"; exit 2; }
trap 'git -C /repo checkout -- . ; git -C /repo clean -fdq src' EXIT
cd /verif
for id in "$@"; do
  out=$(ZCHECK_VERIF=/tmp/sens_out ./check "$id" --tier quick 2>&1)
  code=$?
  echo "== $id exit=$code $(echo "$out" | grep -E 'VIOLATION|oracle:|witness:|HARNESS' | head -4 | tr '\n' ' ' | cut -c1-400)"
done
