#!/bin/bash
# usage: sens.sh <patch.diff> <ID> [<ID>...]
# Applies a seeded change to a scratch worktree of /repo (never to /repo itself), rebuilds the
# simulation binary from it in a separate shadow/target directory and runs the quick checks.
patch="$1"; shift
WT=/tmp/wt/sens_fg
if [ ! -d "$WT" ]; then git -C /repo worktree add -q --detach "$WT" HEAD || exit 2; fi
git -C "$WT" checkout -q --detach "$(git -C /repo rev-parse "${SENS_REV:-HEAD}")" 2>/dev/null
git -C "$WT" checkout -q -- . ; git -C "$WT" clean -fdq src
git -C "$WT" apply "$patch" || { echo "patch does not apply"; exit 2; }
mkdir -p /tmp/sens_out; cp /verif/known-findings.jsonl /tmp/sens_out/
cd "$(dirname "$(readlink -f "$0")")"
for id in "$@"; do
  out=$(ZCHECK_SLOT=fg ZSIM_REPO="$WT" ZSIM_SHADOW=/tmp/sens_fg_shadow CARGO_TARGET_DIR_OVERRIDE=/tmp/sens_fg_target ZCHECK_VERIF=/tmp/sens_out ./check "$id" --tier quick 2>&1)
  code=$?
  echo "== $id exit=$code $(echo "$out" | grep -E 'VIOLATION|oracle:|witness:|HARNESS' | head -4 | tr '\n' ' ' | cut -c1-400)"
done
git -C "$WT" checkout -q -- .
